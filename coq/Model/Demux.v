(* data.go (parseData) and demuxer.go (NextPacket, NextData, updateData, Rewind).
   The PSI and PES unit parsers are parameters here (record dparsers); Model/DemuxFull.v instantiates them
   with Model/Psi.v and Model/Pes.v.  The theorems about which groups of packets are formed and when
   (C02, C06, C07, C19, C20) hold for every instantiation. *)
From Coq Require Import ZArith List Lia Bool.
Require Import Base.Bits Base.Iter Gen.Consts Gen.Types Gen.Preds Model.Packet Model.Pool Model.Reader.
Import ListNotations.
Open Scope Z_scope.

Record dparsers := mk_dparsers {
  dp_psi : list Z -> Packet -> Z -> res (list DemuxerData);   (* parsePSIData + toData *)
  dp_pes : list Z -> res PESData                               (* parsePESData *)
}.

(* a PacketsParser: data, skip flag, or an error *)
Definition custom_parser := list Packet -> res (list DemuxerData * bool).

Definition pes_data (fp : Packet) (pes : PESData) (pid : Z) : DemuxerData :=
  {| DemuxerData_EIT := None; DemuxerData_FirstPacket := Some fp; DemuxerData_NIT := None; DemuxerData_PAT := None;
     DemuxerData_PES := Some pes; DemuxerData_PID := pid; DemuxerData_PMT := None; DemuxerData_SDT := None;
     DemuxerData_TOT := None |}.

(* parseData *)
Definition parse_data (P : dparsers) (prs : option custom_parser) (pm : pmap) (ps : list Packet) : res (list DemuxerData) :=
  let default (ds0 : list DemuxerData) : res (list DemuxerData) :=
    match ps with
    | [] => Panic
    | p0 :: _ =>
        let payload := concat_payload ps in
        let pid := pid_of p0 in
        let fp := {| Packet_AdaptationField := Packet_AdaptationField p0; Packet_Header := Packet_Header p0;
                     Packet_Payload := [] |} in
        if pid =? C_PIDCAT then Ok ds0
        else if isPSIPayload pid (pm_mem pm) then dp_psi P payload fp pid
        else if isPESPayload payload then res_map (fun pes => [pes_data fp pes pid]) (dp_pes P payload)
        else Ok ds0
    end in
  match prs with
  | None => default []
  | Some f =>
      match f ps with
      | Ok (ds, true) => Ok ds
      | Ok (ds, false) => default ds
      | Err _ => Err E_generic
      | Panic => Panic
      end
  end.

Record dstate := mk_dstate {
  d_buffer : list DemuxerData;
  d_pb : option pbuf;
  d_pool : pool;
  d_pm : pmap;
  d_reader : reader;
  d_opt_size : Z;
  d_groups : list (list Packet);   (* ghost: every group handed to parseData so far, in order *)
  d_consulted : list Packet        (* ghost: every packet handed to the PacketSkipper so far, in order *)
}.

Definition init_dstate (r : reader) (opt_size : Z) : dstate := mk_dstate [] None [] [] r opt_size [] [].
Definition set_reader (s : dstate) (r : reader) : dstate :=
  mk_dstate (d_buffer s) (d_pb s) (d_pool s) (d_pm s) r (d_opt_size s) (d_groups s) (d_consulted s).
Definition set_pb (s : dstate) (pb : option pbuf) : dstate :=
  mk_dstate (d_buffer s) pb (d_pool s) (d_pm s) (d_reader s) (d_opt_size s) (d_groups s) (d_consulted s).
Definition set_pool (s : dstate) (pl : pool) : dstate :=
  mk_dstate (d_buffer s) (d_pb s) pl (d_pm s) (d_reader s) (d_opt_size s) (d_groups s) (d_consulted s).
Definition log_group (s : dstate) (g : list Packet) : dstate :=
  mk_dstate (d_buffer s) (d_pb s) (d_pool s) (d_pm s) (d_reader s) (d_opt_size s) (d_groups s ++ [g]) (d_consulted s).
Definition log_consulted (s : dstate) (l : list Packet) : dstate :=
  mk_dstate (d_buffer s) (d_pb s) (d_pool s) (d_pm s) (d_reader s) (d_opt_size s) (d_groups s) (d_consulted s ++ l).

(* NextPacket *)
Definition next_packet (skip : Packet -> bool) (s : dstate) : res Packet * dstate :=
  let with_pb (pb : pbuf) (s : dstate) :=
    let '(rp, r', l) := packet_buffer_next skip pb (d_reader s) in (rp, log_consulted (set_reader s r') l) in
  match d_pb s with
  | Some pb => with_pb pb s
  | None =>
      match new_packet_buffer (d_reader s) (d_opt_size s) with
      | (Ok pb, r') => with_pb pb (set_pb (set_reader s r') (Some pb))
      | (Err c, r') => (Err c, set_reader s r')
      | (Panic, r') => (Panic, set_reader s r')
      end
  end.

(* the PMT PIDs a list of data registers: every PAT program with program_number > 0 *)
Definition pat_pids (d : DemuxerData) : list Z :=
  match DemuxerData_PAT d with
  | None => []
  | Some pat => map PATProgram_ProgramMapID (filter (fun pg => PATProgram_ProgramNumber pg >? 0) (PATData_Programs pat))
  end.

(* updateData *)
Definition update_data (s : dstate) (ds : list DemuxerData) : option DemuxerData * dstate :=
  match ds with
  | [] => (None, s)
  | d :: rest =>
      (Some d, mk_dstate (d_buffer s ++ rest) (d_pb s) (d_pool s)
                         (fold_left pm_add (flat_map pat_pids ds) (d_pm s)) (d_reader s) (d_opt_size s)
                         (d_groups s) (d_consulted s))
  end.

(* end of stream: dump the pool until something parses; parse errors are logged and skipped *)
Fixpoint drain (P : dparsers) (prs : option custom_parser) (fuel : nat) (s : dstate) : res DemuxerData * dstate :=
  match fuel with
  | O => (Err E_nomore, s)
  | S k =>
      let '(pl', ps) := pool_dump (d_pool s) in
      let s0 := set_pool s pl' in
      match ps with
      | [] => (Err E_nomore, s0)
      | _ =>
          let s1 := log_group s0 ps in
          match parse_data P prs (d_pm s1) ps with
          | Err _ => drain P prs k s1
          | Panic => (Panic, s1)
          | Ok ds =>
              match update_data s1 ds with
              | (Some d, s2) => (Ok d, s2)
              | (None, s2) => drain P prs k s2
              end
          end
      end
  end.

Fixpoint next_data_loop (P : dparsers) (prs : option custom_parser) (skip : Packet -> bool) (fuel : nat) (s : dstate)
  : res DemuxerData * dstate :=
  match fuel with
  | O => (Err E_generic, s)
  | S k =>
      match next_packet skip s with
      | (Err c, s1) => if c =? E_nomore then drain P prs (S (length (d_pool s1))) s1 else (Err c, s1)
      | (Panic, s1) => (Panic, s1)
      | (Ok p, s1) =>
          let '(pl', ps) := pool_add (d_pm s1) (d_pool s1) p in
          let s2' := set_pool s1 pl' in
          match ps with
          | [] => next_data_loop P prs skip k s2'
          | _ =>
              let s2 := log_group s2' ps in
              match parse_data P prs (d_pm s2) ps with
              | Err c => (Err c, s2)
              | Panic => (Panic, s2)
              | Ok ds =>
                  match update_data s2 ds with
                  | (Some d, s3) => (Ok d, s3)
                  | (None, s3) => next_data_loop P prs skip k s3
                  end
              end
          end
      end
  end.

Definition nd_fuel (s : dstate) : nat :=
  S (S (Z.to_nat ((r_len (d_reader s) - r_pos (d_reader s)) / 188))).

(* NextData *)
Definition next_data (P : dparsers) (prs : option custom_parser) (skip : Packet -> bool) (s : dstate)
  : res DemuxerData * dstate :=
  match d_buffer s with
  | d :: rest => (Ok d, mk_dstate rest (d_pb s) (d_pool s) (d_pm s) (d_reader s) (d_opt_size s) (d_groups s) (d_consulted s))
  | [] => next_data_loop P prs skip (nd_fuel s) s
  end.

(* Rewind: the program map is kept *)
Definition rewind (s : dstate) : Z * dstate :=
  let '(n, r') := rewind_reader (d_reader s) in
  (n, mk_dstate [] None [] (d_pm s) r' (d_opt_size s) (d_groups s) (d_consulted s)).
