(* Writer-side fault injection (C18): a Muxer call hands the io.Writer a list of groups, each group being the
   consecutive Write calls (byte strings) the call accounts for together (Model/Muxer.v mo_groups).  When the k-th
   Write of the call fails, the call reports the sizes of the groups completed before, and the writer has accepted
   the bytes of the first k Writes. *)
From Coq Require Import ZArith List.
Import ListNotations.
Open Scope Z_scope.

Fixpoint n_before (groups : list (list (list Z))) (k : Z) : Z :=
  match groups with
  | [] => 0
  | g :: r => let c := Z.of_nat (length g) in
              if k <? c then 0 else Z.of_nat (length (concat g)) + n_before r (k - c)
  end.

Definition accepted (chunks : list (list Z)) (k : Z) : list Z := concat (firstn (Z.to_nat k) chunks).
