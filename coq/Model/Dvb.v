(* DVB date/time and BCD durations (dvb.go): parsers (iterator monad) and writers (BitsWriter item lists).
   The date arithmetic, the model of package time and the float64 model live in Model/DvbDate.v (re-exported);
   this file adds what uses the byte functions re-translated from dvb.go on every run (Gen.Preds).

   Interface for other models (integers only, extracted):
     dvb_date_unix (mjd : Z) : Z                      Unix seconds of 00:00 UTC of the day parseDVBTime computes
     parse_dvb_duration_byte (b : Z) : Z
     parse_dvb_duration_seconds, parse_dvb_duration_minutes : IM Z      nanoseconds
     parse_dvb_time : IM Z                            Unix seconds
     enc_dvb_time (unix : Z) : list witem             writeDVBTime for a UTC time with whole seconds
     enc_dvb_duration_seconds, enc_dvb_duration_minutes (ns : Z) : list witem
   and the float64-faithful writers enc_dvb_*_float (not extracted; proved equal in Proofs/DvbProofs.v).

   No proofs in this file. *)
From Coq Require Import ZArith List Bool.
Require Import Base.Bits Base.Iter Base.Wr Gen.Preds.
Require Export Model.DvbDate.
Import ListNotations.
Open Scope Z_scope.
Open Scope iter_scope.

(* ---- parsers ---- *)

(* parseDVBDurationByte, re-translated from dvb.go on every run: uint8(i)>>4*10 + uint8(i)&0xf in uint8 *)
Definition parse_dvb_duration_byte (b : Z) : Z := parseDVBDurationByte b.

(* parseDVBDurationSeconds: nanoseconds *)
Definition parse_dvb_duration_seconds : IM Z :=
  bs <- next_bytes_nocopy 3 ;;
  iret (parse_dvb_duration_byte (byte_at bs 0) * ns_hour
        + parse_dvb_duration_byte (byte_at bs 1) * ns_minute
        + parse_dvb_duration_byte (byte_at bs 2) * ns_second).

(* parseDVBDurationMinutes: nanoseconds *)
Definition parse_dvb_duration_minutes : IM Z :=
  bs <- next_bytes_nocopy 2 ;;
  iret (parse_dvb_duration_byte (byte_at bs 0) * ns_hour
        + parse_dvb_duration_byte (byte_at bs 1) * ns_minute).

(* parseDVBTime: Unix seconds (the duration is a whole number of seconds, so t.Add stays on seconds) *)
Definition parse_dvb_time : IM Z :=
  bs <- next_bytes_nocopy 2 ;;
  let mjd := be16 bs in
  s <- parse_dvb_duration_seconds ;;
  iret (dvb_date_unix mjd + s / ns_second).

(* ---- writers ---- *)

(* writeDVBDurationSeconds (returns 3) *)
Definition enc_dvb_duration_seconds (ns : Z) : list witem :=
  [wu8 (dvbDurationByteRepresentation (dur_hours ns));
   wu8 (dvbDurationByteRepresentation (dur_minutes ns));
   wu8 (dvbDurationByteRepresentation (dur_seconds ns))].

(* writeDVBDurationMinutes (returns 2) *)
Definition enc_dvb_duration_minutes (ns : Z) : list witem :=
  [wu8 (dvbDurationByteRepresentation (dur_hours ns));
   wu8 (dvbDurationByteRepresentation (dur_minutes ns))].

(* writeDVBTime for the UTC time with Unix seconds `unix` (whole seconds; returns 5).
   t.Truncate(24h) is the start of the UTC day, t.Sub(..) the time of day *)
Definition enc_dvb_time (unix : Z) : list witem :=
  let days := unix / 86400 in
  let sod := unix mod 86400 in
  let '(y, m, d) := go_civil_of_days days in
  wu16 (dvb_mjd_of_ymd y m d mod 65536) :: enc_dvb_duration_seconds (sod * ns_second).

(* ---- the writers with the float64 expressions of package time / dvb.go (DvbFloat) ---- *)

Definition enc_dvb_duration_seconds_float (ns : Z) : list witem :=
  [wu8 (dvbDurationByteRepresentation (DvbFloat.dur_hours_float ns));
   wu8 (dvbDurationByteRepresentation (DvbFloat.dur_minutes_float ns));
   wu8 (dvbDurationByteRepresentation (DvbFloat.dur_seconds_float ns))].

Definition enc_dvb_duration_minutes_float (ns : Z) : list witem :=
  [wu8 (dvbDurationByteRepresentation (DvbFloat.dur_hours_float ns));
   wu8 (dvbDurationByteRepresentation (DvbFloat.dur_minutes_float ns))].

Definition enc_dvb_time_float (unix : Z) : list witem :=
  let days := unix / 86400 in
  let sod := unix mod 86400 in
  let '(y, m, d) := go_civil_of_days days in
  wu16 (DvbFloat.ymd_to_mjd_float y m d mod 65536) :: enc_dvb_duration_seconds_float (sod * ns_second).

