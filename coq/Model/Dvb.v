(* STUB: replaced at merge by the C14 / C15 model *)
(* dvb.go: parseDVBTime / parseDVBDurationSeconds / parseDVBDurationMinutes.
   The date formula of parseDVBTime is written in float64 in the source; this stub evaluates
   the same formula over the rationals (int() = truncation toward zero = Z.quot), which agrees
   with the float evaluation whenever no quotient comes within rounding error of an integer
   (true for every 16-bit MJD; the C15 model establishes this with PrimFloat).
   time.Date normalises an out-of-range month and adds the day linearly. *)
From Coq Require Import ZArith List Lia Bool.
Require Import Base.Bits Base.Iter Gen.Consts Gen.Types Gen.Preds.
Import ListNotations.
Open Scope Z_scope.
Open Scope iter_scope.

(* days from 1970-01-01 to the first day of (proleptic Gregorian) month m (1..12) of year y *)
Definition days_from_civil (y m d : Z) : Z :=
  let y' := if m <=? 2 then y - 1 else y in
  let era := y' / 400 in
  let yoe := y' - era * 400 in
  let mp := (m + 9) mod 12 in
  let doy := (153 * mp + 2) / 5 + d - 1 in
  let doe := yoe * 365 + yoe / 4 - yoe / 100 + doy in
  era * 146097 + doe - 719468.

(* time.Date(y, m, d, 0,0,0,0, UTC).Unix() / 86400 *)
Definition go_date_days (y m d : Z) : Z :=
  let m0 := m - 1 in
  let y' := y + m0 / 12 in
  let m' := m0 mod 12 + 1 in
  days_from_civil y' m' 1 + (d - 1).

Definition dvb_date_days (mjd : Z) : Z :=
  let yt := Z.quot (20 * mjd - 301564) 7305 in            (* int((mjd - 15078.2) / 365.25) *)
  let k1 := Z.quot (yt * 1461) 4 in                        (* int(yt * 365.25) *)
  let mt := Z.quot (10000 * (mjd - k1) - 149561000) 306001 in  (* int((mjd - 14956.1 - k1) / 30.6001) *)
  let k2 := Z.quot (mt * 306001) 10000 in                  (* int(mt * 30.6001) *)
  let d := mjd - 14956 - k1 - k2 in
  let k := if (mt =? 14) || (mt =? 15) then 1 else 0 in
  go_date_days (1900 + yt + k) (mt - 1 - k * 12) d.

Definition ns_second : Z := 1000000000.
Definition ns_minute : Z := 60 * ns_second.
Definition ns_hour : Z := 60 * ns_minute.

(* parseDVBDurationSeconds: nanoseconds *)
Definition parse_dvb_duration_seconds : IM Z :=
  bs <- next_bytes_nocopy 3 ;;
  iret (parseDVBDurationByte (byte_at bs 0) * ns_hour + parseDVBDurationByte (byte_at bs 1) * ns_minute
        + parseDVBDurationByte (byte_at bs 2) * ns_second).

(* parseDVBDurationMinutes: nanoseconds *)
Definition parse_dvb_duration_minutes : IM Z :=
  bs <- next_bytes_nocopy 2 ;;
  iret (parseDVBDurationByte (byte_at bs 0) * ns_hour + parseDVBDurationByte (byte_at bs 1) * ns_minute).

(* parseDVBTime: Unix seconds *)
Definition parse_dvb_time : IM Z :=
  bs <- next_bytes_nocopy 2 ;;
  let mjd := be16 bs in
  s <- parse_dvb_duration_seconds ;;
  iret (dvb_date_days mjd * 86400 + s / ns_second).
