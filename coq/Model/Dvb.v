(* STUB: replaced at merge by the C15 model *)
(* dvb.go: parseDVBTime / parseDVBDurationMinutes / parseDVBDurationSeconds and their writers, behind the
   interface the descriptor model (local time offset) uses.  The date uses exact rational arithmetic in
   place of the float64 expressions of dvb.go (same truncations, same order); the harness of C14 compares
   it with the implementation on all 65536 MJD words. time.Time = Unix seconds, time.Duration = ns. *)
From Coq Require Import ZArith List Lia Bool.
Require Import Base.Bits Base.Iter Base.Wr Gen.Consts Gen.Types Gen.Preds.
Import ListNotations.
Open Scope Z_scope.
Open Scope iter_scope.

Definition ns_hour : Z := 3600000000000.
Definition ns_minute : Z := 60000000000.
Definition ns_second : Z := 1000000000.

(* days from 1970-01-01 to the civil date y-m-d, with time.Date's normalisation of months outside
   1..12 and of days outside the month (the day is simply added) *)
Definition days_from_civil (y m d : Z) : Z :=
  let y := y + (m - 1) / 12 in
  let m := (m - 1) mod 12 + 1 in
  let y' := if m <=? 2 then y - 1 else y in
  let era := y' / 400 in
  let yoe := y' - era * 400 in
  let mp := (m + 9) mod 12 in
  let doy := (153 * mp + 2) / 5 in
  let doe := yoe * 365 + yoe / 4 - yoe / 100 + doy in
  era * 146097 + doe - 719468 + (d - 1).

(* civil date of a day number (days since 1970-01-01) *)
Definition civil_from_days (z : Z) : Z * Z * Z :=
  let z := z + 719468 in
  let era := z / 146097 in
  let doe := z - era * 146097 in
  let yoe := (doe - doe / 1460 + doe / 36524 - doe / 146096) / 365 in
  let y := yoe + era * 400 in
  let doy := doe - (365 * yoe + yoe / 4 - yoe / 100) in
  let mp := (5 * doy + 2) / 153 in
  let d := doy - (153 * mp + 2) / 5 + 1 in
  let m := if mp <? 10 then mp + 3 else mp - 9 in
  (if m <=? 2 then y + 1 else y, m, d).

(* the date part of parseDVBTime: Annex C of EN 300 468 with int() truncating toward zero *)
Definition dvb_date_days (mjd : Z) : Z :=
  let yt := Z.quot (20 * mjd - 301564) 7305 in                       (* int((mjd - 15078.2) / 365.25) *)
  let k1 := Z.quot (yt * 1461) 4 in                                    (* int(yt * 365.25) *)
  let mt := Z.quot ((10 * mjd - 149561 - 10 * k1) * 1000) 306001 in    (* int((mjd - 14956.1 - k1) / 30.6001) *)
  let d := mjd - 14956 - k1 - Z.quot (mt * 306001) 10000 in
  let k := if (mt =? 14) || (mt =? 15) then 1 else 0 in
  days_from_civil (1900 + yt + k) (mt - 1 - k * 12) d.

Definition parse_dvb_duration_minutes : IM Z :=
  bs <- next_bytes_nocopy 2 ;;
  iret (parseDVBDurationByte (byte_at bs 0) * ns_hour + parseDVBDurationByte (byte_at bs 1) * ns_minute).

Definition parse_dvb_duration_seconds : IM Z :=
  bs <- next_bytes_nocopy 3 ;;
  iret (parseDVBDurationByte (byte_at bs 0) * ns_hour + parseDVBDurationByte (byte_at bs 1) * ns_minute
        + parseDVBDurationByte (byte_at bs 2) * ns_second).

Definition parse_dvb_time : IM Z :=
  bs <- next_bytes_nocopy 2 ;;
  let mjd := be16 bs in
  s <- parse_dvb_duration_seconds ;;
  iret (dvb_date_days mjd * 86400 + Z.quot s ns_second).

(* uint8(d.Hours()), uint8(int(d.Minutes()) % 60), uint8(int(d.Seconds()) % 60) for durations whose
   float64 quotients are exact enough (whole seconds, |d| < 2^53 ns) *)
Definition dur_hours (ns : Z) : Z := (Z.quot ns ns_hour) mod 256.
Definition dur_minutes (ns : Z) : Z := (Z.rem (Z.quot ns ns_minute) 60) mod 256.
Definition dur_seconds (ns : Z) : Z := (Z.rem (Z.quot ns ns_second) 60) mod 256.

Definition enc_dvb_duration_minutes (ns : Z) : list witem :=
  [wu8 (dvbDurationByteRepresentation (dur_hours ns)); wu8 (dvbDurationByteRepresentation (dur_minutes ns))].

Definition enc_dvb_duration_seconds (ns : Z) : list witem :=
  [wu8 (dvbDurationByteRepresentation (dur_hours ns)); wu8 (dvbDurationByteRepresentation (dur_minutes ns));
   wu8 (dvbDurationByteRepresentation (dur_seconds ns))].

(* writeDVBTime for a UTC time: mjd from Year/Month/Day, then the time of day *)
Definition enc_dvb_time (unix : Z) : list witem :=
  let '(y, m, d) := civil_from_days (unix / 86400) in
  let year := y - 1900 in
  let l := if m <=? 2 then 1 else 0 in
  let mjd := 14956 + d + Z.quot ((year - l) * 1461) 4 + Z.quot ((m + 1 + l * 12) * 306001) 10000 in
  wu16 mjd :: enc_dvb_duration_seconds ((unix mod 86400) * ns_second).
