(* descriptor.go: parseDescriptors / newDescriptor*, calcDescriptor*Length, writeDescriptor*, control flow as in
   the source.  The per-tag calcDescriptor<X>Length functions come from Gen/Preds.v (re-translated from the
   source on every run); calcDescriptorUserDefinedLength, calcDescriptorExtensionLength, the tag dispatch of
   calcDescriptorLength and the loop of calcDescriptorsLength leave the translator's grammar (slice / pointer
   compared with nil) and are written by hand below.
   Interface used by the PSI table and muxer models:
     parse_descriptors, calc_descriptor_length, calc_descriptors_length,
     enc_descriptor, enc_descriptors, enc_descriptors_with_length. *)
From Coq Require Import ZArith List Lia Bool.
Require Import Base.Bits Base.Iter Base.Wr Gen.Consts Gen.Types Gen.Preds Model.Dvb.
Import ListNotations.
Open Scope Z_scope.
Open Scope iter_scope.

(* ---------------- helpers ---------------- *)

(* `for i.Offset() < offsetEnd { item }`: every item parser below consumes at least one byte or fails, so
   offsetEnd - offset + 1 rounds are always enough. E_fuel (99) has no counterpart in the implementation: were it
   ever produced, the correspondence check would show it as a mismatch (Go errors are code 0). *)
Definition E_fuel : Z := 99.

Fixpoint iloop_fuel {A} (fuel : nat) (offsetEnd : Z) (item : IM A) : IM (list A) :=
  match fuel with
  | O => ierr E_fuel
  | S k => off <- ioffset ;;
           if off <? offsetEnd then a <- item ;; r <- iloop_fuel k offsetEnd item ;; iret (a :: r)
           else iret []
  end.

Definition iloop {A} (offsetEnd : Z) (item : IM A) : IM (list A) :=
  off <- ioffset ;; iloop_fuel (S (Z.to_nat (offsetEnd - off))) offsetEnd item.

(* `if i.Offset() < offsetEnd { x, err = i.NextBytes(offsetEnd - i.Offset()) }` *)
Definition rest_bytes (offsetEnd : Z) : IM (list Z) :=
  off <- ioffset ;; if off <? offsetEnd then next_bytes (offsetEnd - off) else iret [].

(* `i.NextBytes(offsetEnd - i.Offset())` without the guard *)
Definition bytes_to (offsetEnd : Z) : IM (list Z) :=
  off <- ioffset ;; next_bytes (offsetEnd - off).

(* `if flag { b, err = i.NextByte() }` *)
Definition opt_byte (c : bool) : IM Z := if c then next_byte else iret 0.

(* a nil pointer dereference in the Go code is a Panic of the model *)
Definition dneed {A} (o : option A) : res A := match o with Some a => Ok a | None => Panic end.

(* BitsWriter.WriteBytesN(bs, n, pad) *)
Definition wbytesn (bs : list Z) (n : nat) (pad : Z) : list witem :=
  if (n =? 0)%nat then []
  else if (n <=? length bs)%nat then [WBytes (firstn n bs)]
  else WBytes bs :: repeat (wu8 pad) (n - length bs).

Definition blen (bs : list Z) : Z := Z.of_nat (length bs).

(* ---------------- newDescriptor<X> ---------------- *)

Definition new_descriptor_ac3 (offsetEnd : Z) : IM DescriptorAC3 :=
  b <- next_byte ;;
  let hasASVC := bitb [b] 3 in
  let hasBSID := bitb [b] 1 in
  let hasCT := bitb [b] 0 in
  let hasMainID := bitb [b] 2 in
  ct <- opt_byte hasCT ;;
  bsid <- opt_byte hasBSID ;;
  mid <- opt_byte hasMainID ;;
  asvc <- opt_byte hasASVC ;;
  ai <- rest_bytes offsetEnd ;;
  iret {| DescriptorAC3_AdditionalInfo := ai;
          DescriptorAC3_ASVC := asvc;
          DescriptorAC3_BSID := bsid;
          DescriptorAC3_ComponentType := ct;
          DescriptorAC3_HasASVC := hasASVC;
          DescriptorAC3_HasBSID := hasBSID;
          DescriptorAC3_HasComponentType := hasCT;
          DescriptorAC3_HasMainID := hasMainID;
          DescriptorAC3_MainID := mid |}.

Definition new_descriptor_avc_video : IM DescriptorAVCVideo :=
  b0 <- next_byte ;;
  b1 <- next_byte ;;
  b2 <- next_byte ;;
  b3 <- next_byte ;;
  iret {| DescriptorAVCVideo_AVC24HourPictureFlag := bitb [b3] 1;
          DescriptorAVCVideo_AVCStillPresent := bitb [b3] 0;
          DescriptorAVCVideo_CompatibleFlags := bitsf [b1] 3 5;
          DescriptorAVCVideo_ConstraintSet0Flag := bitb [b1] 0;
          DescriptorAVCVideo_ConstraintSet1Flag := bitb [b1] 1;
          DescriptorAVCVideo_ConstraintSet2Flag := bitb [b1] 2;
          DescriptorAVCVideo_LevelIDC := b2;
          DescriptorAVCVideo_ProfileIDC := b0 |}.

Definition new_descriptor_component (offsetEnd : Z) : IM DescriptorComponent :=
  b0 <- next_byte ;;
  ctype <- next_byte ;;
  ctag <- next_byte ;;
  lang <- next_bytes 3 ;;
  text <- rest_bytes offsetEnd ;;
  iret {| DescriptorComponent_ComponentTag := ctag;
          DescriptorComponent_ComponentType := ctype;
          DescriptorComponent_ISO639LanguageCode := lang;
          DescriptorComponent_StreamContent := bitsf [b0] 4 4;
          DescriptorComponent_StreamContentExt := bitsf [b0] 0 4;
          DescriptorComponent_Text := text |}.

Definition content_item : IM DescriptorContentItem :=
  bs <- next_bytes_nocopy 2 ;;
  iret {| DescriptorContentItem_ContentNibbleLevel1 := bitsf bs 0 4;
          DescriptorContentItem_ContentNibbleLevel2 := bitsf bs 4 4;
          DescriptorContentItem_UserByte := bitsf bs 8 8 |}.

Definition new_descriptor_content (offsetEnd : Z) : IM DescriptorContent :=
  items <- iloop offsetEnd content_item ;;
  iret {| DescriptorContent_Items := items |}.

Definition new_descriptor_data_stream_alignment : IM DescriptorDataStreamAlignment :=
  b <- next_byte ;; iret {| DescriptorDataStreamAlignment_Type := b |}.

Definition new_descriptor_enhanced_ac3 (offsetEnd : Z) : IM DescriptorEnhancedAC3 :=
  b <- next_byte ;;
  let hasASVC := bitb [b] 3 in
  let hasBSID := bitb [b] 1 in
  let hasCT := bitb [b] 0 in
  let hasMainID := bitb [b] 2 in
  let hasSub1 := bitb [b] 5 in
  let hasSub2 := bitb [b] 6 in
  let hasSub3 := bitb [b] 7 in
  let mixInfo := bitb [b] 4 in
  ct <- opt_byte hasCT ;;
  bsid <- opt_byte hasBSID ;;
  mid <- opt_byte hasMainID ;;
  asvc <- opt_byte hasASVC ;;
  s1 <- opt_byte hasSub1 ;;
  s2 <- opt_byte hasSub2 ;;
  s3 <- opt_byte hasSub3 ;;
  ai <- rest_bytes offsetEnd ;;
  iret {| DescriptorEnhancedAC3_AdditionalInfo := ai;
          DescriptorEnhancedAC3_ASVC := asvc;
          DescriptorEnhancedAC3_BSID := bsid;
          DescriptorEnhancedAC3_ComponentType := ct;
          DescriptorEnhancedAC3_HasASVC := hasASVC;
          DescriptorEnhancedAC3_HasBSID := hasBSID;
          DescriptorEnhancedAC3_HasComponentType := hasCT;
          DescriptorEnhancedAC3_HasMainID := hasMainID;
          DescriptorEnhancedAC3_HasSubStream1 := hasSub1;
          DescriptorEnhancedAC3_HasSubStream2 := hasSub2;
          DescriptorEnhancedAC3_HasSubStream3 := hasSub3;
          DescriptorEnhancedAC3_MainID := mid;
          DescriptorEnhancedAC3_MixInfoExists := mixInfo;
          DescriptorEnhancedAC3_SubStream1 := s1;
          DescriptorEnhancedAC3_SubStream2 := s2;
          DescriptorEnhancedAC3_SubStream3 := s3 |}.

Definition new_descriptor_extended_event_item : IM DescriptorExtendedEventItem :=
  dl <- next_byte ;;
  descr <- next_bytes dl ;;
  cl <- next_byte ;;
  content <- next_bytes cl ;;
  iret {| DescriptorExtendedEventItem_Content := content;
          DescriptorExtendedEventItem_Description := descr |}.

Definition new_descriptor_extended_event : IM DescriptorExtendedEvent :=
  b <- next_byte ;;
  lang <- next_bytes 3 ;;
  il <- next_byte ;;
  off <- ioffset ;;
  items <- iloop (off + il) new_descriptor_extended_event_item ;;
  tl <- next_byte ;;
  text <- next_bytes tl ;;
  iret {| DescriptorExtendedEvent_ISO639LanguageCode := lang;
          DescriptorExtendedEvent_Items := items;
          DescriptorExtendedEvent_LastDescriptorNumber := bitsf [b] 4 4;
          DescriptorExtendedEvent_Number := bitsf [b] 0 4;
          DescriptorExtendedEvent_Text := text |}.

Definition new_descriptor_extension_supplementary_audio (offsetEnd : Z) : IM DescriptorExtensionSupplementaryAudio :=
  b <- next_byte ;;
  let hasLang := bitb [b] 7 in
  lang <- (if hasLang then next_bytes 3 else iret []) ;;
  pd <- rest_bytes offsetEnd ;;
  iret {| DescriptorExtensionSupplementaryAudio_EditorialClassification := bitsf [b] 1 5;
          DescriptorExtensionSupplementaryAudio_HasLanguageCode := hasLang;
          DescriptorExtensionSupplementaryAudio_LanguageCode := lang;
          DescriptorExtensionSupplementaryAudio_MixType := bitb [b] 0;
          DescriptorExtensionSupplementaryAudio_PrivateData := pd |}.

Definition new_descriptor_extension (offsetEnd : Z) : IM DescriptorExtension :=
  tag <- next_byte ;;
  if tag =? C_DescriptorTagExtensionSupplementaryAudio then
    sa <- new_descriptor_extension_supplementary_audio offsetEnd ;;
    iret {| DescriptorExtension_SupplementaryAudio := Some sa;
            DescriptorExtension_Tag := tag;
            DescriptorExtension_Unknown := None |}
  else
    bs <- bytes_to offsetEnd ;;
    iret {| DescriptorExtension_SupplementaryAudio := None;
            DescriptorExtension_Tag := tag;
            DescriptorExtension_Unknown := Some bs |}.

(* Language: bs[0 : len(bs)-1], Type: bs[len(bs)-1]; both panic on an empty slice *)
Definition new_descriptor_iso639 (offsetEnd : Z) : IM DescriptorISO639LanguageAndAudioType :=
  bs <- bytes_to offsetEnd ;;
  match bs with
  | [] => ipanic
  | _ => iret {| DescriptorISO639LanguageAndAudioType_Language := removelast bs;
                 DescriptorISO639LanguageAndAudioType_Type := last bs 0 |}
  end.

Definition local_time_offset_item : IM DescriptorLocalTimeOffsetItem :=
  cc <- next_bytes 3 ;;
  b <- next_byte ;;
  lto <- parse_dvb_duration_minutes ;;
  toc <- parse_dvb_time ;;
  nto <- parse_dvb_duration_minutes ;;
  iret {| DescriptorLocalTimeOffsetItem_CountryCode := cc;
          DescriptorLocalTimeOffsetItem_CountryRegionID := bitsf [b] 0 6;
          DescriptorLocalTimeOffsetItem_LocalTimeOffset := lto;
          DescriptorLocalTimeOffsetItem_LocalTimeOffsetPolarity := bitb [b] 7;
          DescriptorLocalTimeOffsetItem_NextTimeOffset := nto;
          DescriptorLocalTimeOffsetItem_TimeOfChange := toc |}.

Definition new_descriptor_local_time_offset (offsetEnd : Z) : IM DescriptorLocalTimeOffset :=
  items <- iloop offsetEnd local_time_offset_item ;;
  iret {| DescriptorLocalTimeOffset_Items := items |}.

Definition new_descriptor_maximum_bitrate : IM DescriptorMaximumBitrate :=
  bs <- next_bytes_nocopy 3 ;;
  iret {| DescriptorMaximumBitrate_Bitrate := bitsf bs 2 22 * 50 |}.

Definition new_descriptor_network_name (offsetEnd : Z) : IM DescriptorNetworkName :=
  bs <- bytes_to offsetEnd ;; iret {| DescriptorNetworkName_Name := bs |}.

Definition parental_rating_item : IM DescriptorParentalRatingItem :=
  bs <- next_bytes 4 ;;
  iret {| DescriptorParentalRatingItem_CountryCode := firstn 3 bs;
          DescriptorParentalRatingItem_Rating := byte_at bs 3 |}.

Definition new_descriptor_parental_rating (offsetEnd : Z) : IM DescriptorParentalRating :=
  items <- iloop offsetEnd parental_rating_item ;;
  iret {| DescriptorParentalRating_Items := items |}.

Definition new_descriptor_private_data_indicator : IM DescriptorPrivateDataIndicator :=
  bs <- next_bytes_nocopy 4 ;; iret {| DescriptorPrivateDataIndicator_Indicator := bitsf bs 0 32 |}.

Definition new_descriptor_private_data_specifier : IM DescriptorPrivateDataSpecifier :=
  bs <- next_bytes_nocopy 4 ;; iret {| DescriptorPrivateDataSpecifier_Specifier := bitsf bs 0 32 |}.

Definition new_descriptor_registration (offsetEnd : Z) : IM DescriptorRegistration :=
  bs <- next_bytes_nocopy 4 ;;
  ai <- rest_bytes offsetEnd ;;
  iret {| DescriptorRegistration_AdditionalIdentificationInfo := ai;
          DescriptorRegistration_FormatIdentifier := bitsf bs 0 32 |}.

Definition new_descriptor_service : IM DescriptorService :=
  ty <- next_byte ;;
  pl <- next_byte ;;
  provider <- next_bytes pl ;;
  nl <- next_byte ;;
  name <- next_bytes nl ;;
  iret {| DescriptorService_Name := name;
          DescriptorService_Provider := provider;
          DescriptorService_Type := ty |}.

Definition new_descriptor_short_event : IM DescriptorShortEvent :=
  lang <- next_bytes 3 ;;
  el <- next_byte ;;
  name <- next_bytes el ;;
  tl <- next_byte ;;
  text <- next_bytes tl ;;
  iret {| DescriptorShortEvent_EventName := name;
          DescriptorShortEvent_Language := lang;
          DescriptorShortEvent_Text := text |}.

Definition new_descriptor_stream_identifier : IM DescriptorStreamIdentifier :=
  b <- next_byte ;; iret {| DescriptorStreamIdentifier_ComponentTag := b |}.

Definition subtitling_item : IM DescriptorSubtitlingItem :=
  lang <- next_bytes 3 ;;
  ty <- next_byte ;;
  cp <- next_bytes_nocopy 2 ;;
  ap <- next_bytes_nocopy 2 ;;
  iret {| DescriptorSubtitlingItem_AncillaryPageID := bitsf ap 0 16;
          DescriptorSubtitlingItem_CompositionPageID := bitsf cp 0 16;
          DescriptorSubtitlingItem_Language := lang;
          DescriptorSubtitlingItem_Type := ty |}.

Definition new_descriptor_subtitling (offsetEnd : Z) : IM DescriptorSubtitling :=
  items <- iloop offsetEnd subtitling_item ;;
  iret {| DescriptorSubtitling_Items := items |}.

(* Page: uint8(b)>>4*10 + uint8(b&0xf), at most 15*10+15, no wrap *)
Definition teletext_item : IM DescriptorTeletextItem :=
  lang <- next_bytes 3 ;;
  b <- next_byte ;;
  p <- next_byte ;;
  iret {| DescriptorTeletextItem_Language := lang;
          DescriptorTeletextItem_Magazine := bitsf [b] 5 3;
          DescriptorTeletextItem_Page := bitsf [p] 0 4 * 10 + bitsf [p] 4 4;
          DescriptorTeletextItem_Type := bitsf [b] 0 5 |}.

Definition new_descriptor_teletext (offsetEnd : Z) : IM DescriptorTeletext :=
  items <- iloop offsetEnd teletext_item ;;
  iret {| DescriptorTeletext_Items := items |}.

Definition new_descriptor_unknown (tag len : Z) : IM DescriptorUnknown :=
  bs <- next_bytes len ;;
  iret {| DescriptorUnknown_Content := bs; DescriptorUnknown_Tag := tag |}.

Definition is_vbi_line_service (id : Z) : bool :=
  (id =? C_VBIDataServiceIDClosedCaptioning) || (id =? C_VBIDataServiceIDEBUTeletext) ||
  (id =? C_VBIDataServiceIDInvertedTeletext) || (id =? C_VBIDataServiceIDMonochrome442Samples) ||
  (id =? C_VBIDataServiceIDVPS) || (id =? C_VBIDataServiceIDWSS).

Definition vbi_line (b : Z) : DescriptorVBIDataDescriptor :=
  {| DescriptorVBIDataDescriptor_FieldParity := bitb [b] 2;
     DescriptorVBIDataDescriptor_LineOffset := bitsf [b] 3 5 |}.

(* the inner loop reads one byte per round and keeps it only for the six line-based services *)
Definition vbi_data_service : IM DescriptorVBIDataService :=
  id <- next_byte ;;
  dl <- next_byte ;;
  off <- ioffset ;;
  bs <- iloop (off + dl) next_byte ;;
  iret {| DescriptorVBIDataService_DataServiceID := id;
          DescriptorVBIDataService_Descriptors := if is_vbi_line_service id then map vbi_line bs else [] |}.

Definition new_descriptor_vbi_data (offsetEnd : Z) : IM DescriptorVBIData :=
  srv <- iloop offsetEnd vbi_data_service ;;
  iret {| DescriptorVBIData_Services := srv |}.

(* ---------------- the Descriptor record: header-only value and one setter per typed body ---------------- *)

Definition desc_hdr (tag len : Z) : Descriptor := {|
  Descriptor_AC3 := None; Descriptor_AVCVideo := None; Descriptor_Component := None; Descriptor_Content := None; Descriptor_DataStreamAlignment :=
  None; Descriptor_EnhancedAC3 := None; Descriptor_ExtendedEvent := None; Descriptor_Extension := None; Descriptor_ISO639LanguageAndAudioType := None;
  Descriptor_Length := len; Descriptor_LocalTimeOffset := None; Descriptor_MaximumBitrate := None; Descriptor_NetworkName := None;
  Descriptor_ParentalRating := None; Descriptor_PrivateDataIndicator := None; Descriptor_PrivateDataSpecifier := None; Descriptor_Registration :=
  None; Descriptor_Service := None; Descriptor_ShortEvent := None; Descriptor_StreamIdentifier := None; Descriptor_Subtitling := None; Descriptor_Tag
  := tag; Descriptor_Teletext := None; Descriptor_Unknown := None; Descriptor_UserDefined := []; Descriptor_VBIData := None; Descriptor_VBITeletext :=
  None |}.
Definition set_AC3 (d : Descriptor) (v : DescriptorAC3) : Descriptor := {|
  Descriptor_AC3 := Some v; Descriptor_AVCVideo := Descriptor_AVCVideo d; Descriptor_Component := Descriptor_Component d; Descriptor_Content :=
  Descriptor_Content d; Descriptor_DataStreamAlignment := Descriptor_DataStreamAlignment d; Descriptor_EnhancedAC3 := Descriptor_EnhancedAC3 d;
  Descriptor_ExtendedEvent := Descriptor_ExtendedEvent d; Descriptor_Extension := Descriptor_Extension d; Descriptor_ISO639LanguageAndAudioType :=
  Descriptor_ISO639LanguageAndAudioType d; Descriptor_Length := Descriptor_Length d; Descriptor_LocalTimeOffset := Descriptor_LocalTimeOffset d;
  Descriptor_MaximumBitrate := Descriptor_MaximumBitrate d; Descriptor_NetworkName := Descriptor_NetworkName d; Descriptor_ParentalRating :=
  Descriptor_ParentalRating d; Descriptor_PrivateDataIndicator := Descriptor_PrivateDataIndicator d; Descriptor_PrivateDataSpecifier :=
  Descriptor_PrivateDataSpecifier d; Descriptor_Registration := Descriptor_Registration d; Descriptor_Service := Descriptor_Service d;
  Descriptor_ShortEvent := Descriptor_ShortEvent d; Descriptor_StreamIdentifier := Descriptor_StreamIdentifier d; Descriptor_Subtitling :=
  Descriptor_Subtitling d; Descriptor_Tag := Descriptor_Tag d; Descriptor_Teletext := Descriptor_Teletext d; Descriptor_Unknown := Descriptor_Unknown
  d; Descriptor_UserDefined := Descriptor_UserDefined d; Descriptor_VBIData := Descriptor_VBIData d; Descriptor_VBITeletext := Descriptor_VBITeletext
  d |}.
Definition set_AVCVideo (d : Descriptor) (v : DescriptorAVCVideo) : Descriptor := {|
  Descriptor_AC3 := Descriptor_AC3 d; Descriptor_AVCVideo := Some v; Descriptor_Component := Descriptor_Component d; Descriptor_Content :=
  Descriptor_Content d; Descriptor_DataStreamAlignment := Descriptor_DataStreamAlignment d; Descriptor_EnhancedAC3 := Descriptor_EnhancedAC3 d;
  Descriptor_ExtendedEvent := Descriptor_ExtendedEvent d; Descriptor_Extension := Descriptor_Extension d; Descriptor_ISO639LanguageAndAudioType :=
  Descriptor_ISO639LanguageAndAudioType d; Descriptor_Length := Descriptor_Length d; Descriptor_LocalTimeOffset := Descriptor_LocalTimeOffset d;
  Descriptor_MaximumBitrate := Descriptor_MaximumBitrate d; Descriptor_NetworkName := Descriptor_NetworkName d; Descriptor_ParentalRating :=
  Descriptor_ParentalRating d; Descriptor_PrivateDataIndicator := Descriptor_PrivateDataIndicator d; Descriptor_PrivateDataSpecifier :=
  Descriptor_PrivateDataSpecifier d; Descriptor_Registration := Descriptor_Registration d; Descriptor_Service := Descriptor_Service d;
  Descriptor_ShortEvent := Descriptor_ShortEvent d; Descriptor_StreamIdentifier := Descriptor_StreamIdentifier d; Descriptor_Subtitling :=
  Descriptor_Subtitling d; Descriptor_Tag := Descriptor_Tag d; Descriptor_Teletext := Descriptor_Teletext d; Descriptor_Unknown := Descriptor_Unknown
  d; Descriptor_UserDefined := Descriptor_UserDefined d; Descriptor_VBIData := Descriptor_VBIData d; Descriptor_VBITeletext := Descriptor_VBITeletext
  d |}.
Definition set_Component (d : Descriptor) (v : DescriptorComponent) : Descriptor := {|
  Descriptor_AC3 := Descriptor_AC3 d; Descriptor_AVCVideo := Descriptor_AVCVideo d; Descriptor_Component := Some v; Descriptor_Content :=
  Descriptor_Content d; Descriptor_DataStreamAlignment := Descriptor_DataStreamAlignment d; Descriptor_EnhancedAC3 := Descriptor_EnhancedAC3 d;
  Descriptor_ExtendedEvent := Descriptor_ExtendedEvent d; Descriptor_Extension := Descriptor_Extension d; Descriptor_ISO639LanguageAndAudioType :=
  Descriptor_ISO639LanguageAndAudioType d; Descriptor_Length := Descriptor_Length d; Descriptor_LocalTimeOffset := Descriptor_LocalTimeOffset d;
  Descriptor_MaximumBitrate := Descriptor_MaximumBitrate d; Descriptor_NetworkName := Descriptor_NetworkName d; Descriptor_ParentalRating :=
  Descriptor_ParentalRating d; Descriptor_PrivateDataIndicator := Descriptor_PrivateDataIndicator d; Descriptor_PrivateDataSpecifier :=
  Descriptor_PrivateDataSpecifier d; Descriptor_Registration := Descriptor_Registration d; Descriptor_Service := Descriptor_Service d;
  Descriptor_ShortEvent := Descriptor_ShortEvent d; Descriptor_StreamIdentifier := Descriptor_StreamIdentifier d; Descriptor_Subtitling :=
  Descriptor_Subtitling d; Descriptor_Tag := Descriptor_Tag d; Descriptor_Teletext := Descriptor_Teletext d; Descriptor_Unknown := Descriptor_Unknown
  d; Descriptor_UserDefined := Descriptor_UserDefined d; Descriptor_VBIData := Descriptor_VBIData d; Descriptor_VBITeletext := Descriptor_VBITeletext
  d |}.
Definition set_Content (d : Descriptor) (v : DescriptorContent) : Descriptor := {|
  Descriptor_AC3 := Descriptor_AC3 d; Descriptor_AVCVideo := Descriptor_AVCVideo d; Descriptor_Component := Descriptor_Component d; Descriptor_Content
  := Some v; Descriptor_DataStreamAlignment := Descriptor_DataStreamAlignment d; Descriptor_EnhancedAC3 := Descriptor_EnhancedAC3 d;
  Descriptor_ExtendedEvent := Descriptor_ExtendedEvent d; Descriptor_Extension := Descriptor_Extension d; Descriptor_ISO639LanguageAndAudioType :=
  Descriptor_ISO639LanguageAndAudioType d; Descriptor_Length := Descriptor_Length d; Descriptor_LocalTimeOffset := Descriptor_LocalTimeOffset d;
  Descriptor_MaximumBitrate := Descriptor_MaximumBitrate d; Descriptor_NetworkName := Descriptor_NetworkName d; Descriptor_ParentalRating :=
  Descriptor_ParentalRating d; Descriptor_PrivateDataIndicator := Descriptor_PrivateDataIndicator d; Descriptor_PrivateDataSpecifier :=
  Descriptor_PrivateDataSpecifier d; Descriptor_Registration := Descriptor_Registration d; Descriptor_Service := Descriptor_Service d;
  Descriptor_ShortEvent := Descriptor_ShortEvent d; Descriptor_StreamIdentifier := Descriptor_StreamIdentifier d; Descriptor_Subtitling :=
  Descriptor_Subtitling d; Descriptor_Tag := Descriptor_Tag d; Descriptor_Teletext := Descriptor_Teletext d; Descriptor_Unknown := Descriptor_Unknown
  d; Descriptor_UserDefined := Descriptor_UserDefined d; Descriptor_VBIData := Descriptor_VBIData d; Descriptor_VBITeletext := Descriptor_VBITeletext
  d |}.
Definition set_DataStreamAlignment (d : Descriptor) (v : DescriptorDataStreamAlignment) : Descriptor := {|
  Descriptor_AC3 := Descriptor_AC3 d; Descriptor_AVCVideo := Descriptor_AVCVideo d; Descriptor_Component := Descriptor_Component d; Descriptor_Content
  := Descriptor_Content d; Descriptor_DataStreamAlignment := Some v; Descriptor_EnhancedAC3 := Descriptor_EnhancedAC3 d; Descriptor_ExtendedEvent :=
  Descriptor_ExtendedEvent d; Descriptor_Extension := Descriptor_Extension d; Descriptor_ISO639LanguageAndAudioType :=
  Descriptor_ISO639LanguageAndAudioType d; Descriptor_Length := Descriptor_Length d; Descriptor_LocalTimeOffset := Descriptor_LocalTimeOffset d;
  Descriptor_MaximumBitrate := Descriptor_MaximumBitrate d; Descriptor_NetworkName := Descriptor_NetworkName d; Descriptor_ParentalRating :=
  Descriptor_ParentalRating d; Descriptor_PrivateDataIndicator := Descriptor_PrivateDataIndicator d; Descriptor_PrivateDataSpecifier :=
  Descriptor_PrivateDataSpecifier d; Descriptor_Registration := Descriptor_Registration d; Descriptor_Service := Descriptor_Service d;
  Descriptor_ShortEvent := Descriptor_ShortEvent d; Descriptor_StreamIdentifier := Descriptor_StreamIdentifier d; Descriptor_Subtitling :=
  Descriptor_Subtitling d; Descriptor_Tag := Descriptor_Tag d; Descriptor_Teletext := Descriptor_Teletext d; Descriptor_Unknown := Descriptor_Unknown
  d; Descriptor_UserDefined := Descriptor_UserDefined d; Descriptor_VBIData := Descriptor_VBIData d; Descriptor_VBITeletext := Descriptor_VBITeletext
  d |}.
Definition set_EnhancedAC3 (d : Descriptor) (v : DescriptorEnhancedAC3) : Descriptor := {|
  Descriptor_AC3 := Descriptor_AC3 d; Descriptor_AVCVideo := Descriptor_AVCVideo d; Descriptor_Component := Descriptor_Component d; Descriptor_Content
  := Descriptor_Content d; Descriptor_DataStreamAlignment := Descriptor_DataStreamAlignment d; Descriptor_EnhancedAC3 := Some v;
  Descriptor_ExtendedEvent := Descriptor_ExtendedEvent d; Descriptor_Extension := Descriptor_Extension d; Descriptor_ISO639LanguageAndAudioType :=
  Descriptor_ISO639LanguageAndAudioType d; Descriptor_Length := Descriptor_Length d; Descriptor_LocalTimeOffset := Descriptor_LocalTimeOffset d;
  Descriptor_MaximumBitrate := Descriptor_MaximumBitrate d; Descriptor_NetworkName := Descriptor_NetworkName d; Descriptor_ParentalRating :=
  Descriptor_ParentalRating d; Descriptor_PrivateDataIndicator := Descriptor_PrivateDataIndicator d; Descriptor_PrivateDataSpecifier :=
  Descriptor_PrivateDataSpecifier d; Descriptor_Registration := Descriptor_Registration d; Descriptor_Service := Descriptor_Service d;
  Descriptor_ShortEvent := Descriptor_ShortEvent d; Descriptor_StreamIdentifier := Descriptor_StreamIdentifier d; Descriptor_Subtitling :=
  Descriptor_Subtitling d; Descriptor_Tag := Descriptor_Tag d; Descriptor_Teletext := Descriptor_Teletext d; Descriptor_Unknown := Descriptor_Unknown
  d; Descriptor_UserDefined := Descriptor_UserDefined d; Descriptor_VBIData := Descriptor_VBIData d; Descriptor_VBITeletext := Descriptor_VBITeletext
  d |}.
Definition set_ExtendedEvent (d : Descriptor) (v : DescriptorExtendedEvent) : Descriptor := {|
  Descriptor_AC3 := Descriptor_AC3 d; Descriptor_AVCVideo := Descriptor_AVCVideo d; Descriptor_Component := Descriptor_Component d; Descriptor_Content
  := Descriptor_Content d; Descriptor_DataStreamAlignment := Descriptor_DataStreamAlignment d; Descriptor_EnhancedAC3 := Descriptor_EnhancedAC3 d;
  Descriptor_ExtendedEvent := Some v; Descriptor_Extension := Descriptor_Extension d; Descriptor_ISO639LanguageAndAudioType :=
  Descriptor_ISO639LanguageAndAudioType d; Descriptor_Length := Descriptor_Length d; Descriptor_LocalTimeOffset := Descriptor_LocalTimeOffset d;
  Descriptor_MaximumBitrate := Descriptor_MaximumBitrate d; Descriptor_NetworkName := Descriptor_NetworkName d; Descriptor_ParentalRating :=
  Descriptor_ParentalRating d; Descriptor_PrivateDataIndicator := Descriptor_PrivateDataIndicator d; Descriptor_PrivateDataSpecifier :=
  Descriptor_PrivateDataSpecifier d; Descriptor_Registration := Descriptor_Registration d; Descriptor_Service := Descriptor_Service d;
  Descriptor_ShortEvent := Descriptor_ShortEvent d; Descriptor_StreamIdentifier := Descriptor_StreamIdentifier d; Descriptor_Subtitling :=
  Descriptor_Subtitling d; Descriptor_Tag := Descriptor_Tag d; Descriptor_Teletext := Descriptor_Teletext d; Descriptor_Unknown := Descriptor_Unknown
  d; Descriptor_UserDefined := Descriptor_UserDefined d; Descriptor_VBIData := Descriptor_VBIData d; Descriptor_VBITeletext := Descriptor_VBITeletext
  d |}.
Definition set_Extension (d : Descriptor) (v : DescriptorExtension) : Descriptor := {|
  Descriptor_AC3 := Descriptor_AC3 d; Descriptor_AVCVideo := Descriptor_AVCVideo d; Descriptor_Component := Descriptor_Component d; Descriptor_Content
  := Descriptor_Content d; Descriptor_DataStreamAlignment := Descriptor_DataStreamAlignment d; Descriptor_EnhancedAC3 := Descriptor_EnhancedAC3 d;
  Descriptor_ExtendedEvent := Descriptor_ExtendedEvent d; Descriptor_Extension := Some v; Descriptor_ISO639LanguageAndAudioType :=
  Descriptor_ISO639LanguageAndAudioType d; Descriptor_Length := Descriptor_Length d; Descriptor_LocalTimeOffset := Descriptor_LocalTimeOffset d;
  Descriptor_MaximumBitrate := Descriptor_MaximumBitrate d; Descriptor_NetworkName := Descriptor_NetworkName d; Descriptor_ParentalRating :=
  Descriptor_ParentalRating d; Descriptor_PrivateDataIndicator := Descriptor_PrivateDataIndicator d; Descriptor_PrivateDataSpecifier :=
  Descriptor_PrivateDataSpecifier d; Descriptor_Registration := Descriptor_Registration d; Descriptor_Service := Descriptor_Service d;
  Descriptor_ShortEvent := Descriptor_ShortEvent d; Descriptor_StreamIdentifier := Descriptor_StreamIdentifier d; Descriptor_Subtitling :=
  Descriptor_Subtitling d; Descriptor_Tag := Descriptor_Tag d; Descriptor_Teletext := Descriptor_Teletext d; Descriptor_Unknown := Descriptor_Unknown
  d; Descriptor_UserDefined := Descriptor_UserDefined d; Descriptor_VBIData := Descriptor_VBIData d; Descriptor_VBITeletext := Descriptor_VBITeletext
  d |}.
Definition set_ISO639LanguageAndAudioType (d : Descriptor) (v : DescriptorISO639LanguageAndAudioType) : Descriptor := {|
  Descriptor_AC3 := Descriptor_AC3 d; Descriptor_AVCVideo := Descriptor_AVCVideo d; Descriptor_Component := Descriptor_Component d; Descriptor_Content
  := Descriptor_Content d; Descriptor_DataStreamAlignment := Descriptor_DataStreamAlignment d; Descriptor_EnhancedAC3 := Descriptor_EnhancedAC3 d;
  Descriptor_ExtendedEvent := Descriptor_ExtendedEvent d; Descriptor_Extension := Descriptor_Extension d; Descriptor_ISO639LanguageAndAudioType :=
  Some v; Descriptor_Length := Descriptor_Length d; Descriptor_LocalTimeOffset := Descriptor_LocalTimeOffset d; Descriptor_MaximumBitrate :=
  Descriptor_MaximumBitrate d; Descriptor_NetworkName := Descriptor_NetworkName d; Descriptor_ParentalRating := Descriptor_ParentalRating d;
  Descriptor_PrivateDataIndicator := Descriptor_PrivateDataIndicator d; Descriptor_PrivateDataSpecifier := Descriptor_PrivateDataSpecifier d;
  Descriptor_Registration := Descriptor_Registration d; Descriptor_Service := Descriptor_Service d; Descriptor_ShortEvent := Descriptor_ShortEvent d;
  Descriptor_StreamIdentifier := Descriptor_StreamIdentifier d; Descriptor_Subtitling := Descriptor_Subtitling d; Descriptor_Tag := Descriptor_Tag d;
  Descriptor_Teletext := Descriptor_Teletext d; Descriptor_Unknown := Descriptor_Unknown d; Descriptor_UserDefined := Descriptor_UserDefined d;
  Descriptor_VBIData := Descriptor_VBIData d; Descriptor_VBITeletext := Descriptor_VBITeletext d |}.
Definition set_LocalTimeOffset (d : Descriptor) (v : DescriptorLocalTimeOffset) : Descriptor := {|
  Descriptor_AC3 := Descriptor_AC3 d; Descriptor_AVCVideo := Descriptor_AVCVideo d; Descriptor_Component := Descriptor_Component d; Descriptor_Content
  := Descriptor_Content d; Descriptor_DataStreamAlignment := Descriptor_DataStreamAlignment d; Descriptor_EnhancedAC3 := Descriptor_EnhancedAC3 d;
  Descriptor_ExtendedEvent := Descriptor_ExtendedEvent d; Descriptor_Extension := Descriptor_Extension d; Descriptor_ISO639LanguageAndAudioType :=
  Descriptor_ISO639LanguageAndAudioType d; Descriptor_Length := Descriptor_Length d; Descriptor_LocalTimeOffset := Some v; Descriptor_MaximumBitrate
  := Descriptor_MaximumBitrate d; Descriptor_NetworkName := Descriptor_NetworkName d; Descriptor_ParentalRating := Descriptor_ParentalRating d;
  Descriptor_PrivateDataIndicator := Descriptor_PrivateDataIndicator d; Descriptor_PrivateDataSpecifier := Descriptor_PrivateDataSpecifier d;
  Descriptor_Registration := Descriptor_Registration d; Descriptor_Service := Descriptor_Service d; Descriptor_ShortEvent := Descriptor_ShortEvent d;
  Descriptor_StreamIdentifier := Descriptor_StreamIdentifier d; Descriptor_Subtitling := Descriptor_Subtitling d; Descriptor_Tag := Descriptor_Tag d;
  Descriptor_Teletext := Descriptor_Teletext d; Descriptor_Unknown := Descriptor_Unknown d; Descriptor_UserDefined := Descriptor_UserDefined d;
  Descriptor_VBIData := Descriptor_VBIData d; Descriptor_VBITeletext := Descriptor_VBITeletext d |}.
Definition set_MaximumBitrate (d : Descriptor) (v : DescriptorMaximumBitrate) : Descriptor := {|
  Descriptor_AC3 := Descriptor_AC3 d; Descriptor_AVCVideo := Descriptor_AVCVideo d; Descriptor_Component := Descriptor_Component d; Descriptor_Content
  := Descriptor_Content d; Descriptor_DataStreamAlignment := Descriptor_DataStreamAlignment d; Descriptor_EnhancedAC3 := Descriptor_EnhancedAC3 d;
  Descriptor_ExtendedEvent := Descriptor_ExtendedEvent d; Descriptor_Extension := Descriptor_Extension d; Descriptor_ISO639LanguageAndAudioType :=
  Descriptor_ISO639LanguageAndAudioType d; Descriptor_Length := Descriptor_Length d; Descriptor_LocalTimeOffset := Descriptor_LocalTimeOffset d;
  Descriptor_MaximumBitrate := Some v; Descriptor_NetworkName := Descriptor_NetworkName d; Descriptor_ParentalRating := Descriptor_ParentalRating d;
  Descriptor_PrivateDataIndicator := Descriptor_PrivateDataIndicator d; Descriptor_PrivateDataSpecifier := Descriptor_PrivateDataSpecifier d;
  Descriptor_Registration := Descriptor_Registration d; Descriptor_Service := Descriptor_Service d; Descriptor_ShortEvent := Descriptor_ShortEvent d;
  Descriptor_StreamIdentifier := Descriptor_StreamIdentifier d; Descriptor_Subtitling := Descriptor_Subtitling d; Descriptor_Tag := Descriptor_Tag d;
  Descriptor_Teletext := Descriptor_Teletext d; Descriptor_Unknown := Descriptor_Unknown d; Descriptor_UserDefined := Descriptor_UserDefined d;
  Descriptor_VBIData := Descriptor_VBIData d; Descriptor_VBITeletext := Descriptor_VBITeletext d |}.
Definition set_NetworkName (d : Descriptor) (v : DescriptorNetworkName) : Descriptor := {|
  Descriptor_AC3 := Descriptor_AC3 d; Descriptor_AVCVideo := Descriptor_AVCVideo d; Descriptor_Component := Descriptor_Component d; Descriptor_Content
  := Descriptor_Content d; Descriptor_DataStreamAlignment := Descriptor_DataStreamAlignment d; Descriptor_EnhancedAC3 := Descriptor_EnhancedAC3 d;
  Descriptor_ExtendedEvent := Descriptor_ExtendedEvent d; Descriptor_Extension := Descriptor_Extension d; Descriptor_ISO639LanguageAndAudioType :=
  Descriptor_ISO639LanguageAndAudioType d; Descriptor_Length := Descriptor_Length d; Descriptor_LocalTimeOffset := Descriptor_LocalTimeOffset d;
  Descriptor_MaximumBitrate := Descriptor_MaximumBitrate d; Descriptor_NetworkName := Some v; Descriptor_ParentalRating := Descriptor_ParentalRating
  d; Descriptor_PrivateDataIndicator := Descriptor_PrivateDataIndicator d; Descriptor_PrivateDataSpecifier := Descriptor_PrivateDataSpecifier d;
  Descriptor_Registration := Descriptor_Registration d; Descriptor_Service := Descriptor_Service d; Descriptor_ShortEvent := Descriptor_ShortEvent d;
  Descriptor_StreamIdentifier := Descriptor_StreamIdentifier d; Descriptor_Subtitling := Descriptor_Subtitling d; Descriptor_Tag := Descriptor_Tag d;
  Descriptor_Teletext := Descriptor_Teletext d; Descriptor_Unknown := Descriptor_Unknown d; Descriptor_UserDefined := Descriptor_UserDefined d;
  Descriptor_VBIData := Descriptor_VBIData d; Descriptor_VBITeletext := Descriptor_VBITeletext d |}.
Definition set_ParentalRating (d : Descriptor) (v : DescriptorParentalRating) : Descriptor := {|
  Descriptor_AC3 := Descriptor_AC3 d; Descriptor_AVCVideo := Descriptor_AVCVideo d; Descriptor_Component := Descriptor_Component d; Descriptor_Content
  := Descriptor_Content d; Descriptor_DataStreamAlignment := Descriptor_DataStreamAlignment d; Descriptor_EnhancedAC3 := Descriptor_EnhancedAC3 d;
  Descriptor_ExtendedEvent := Descriptor_ExtendedEvent d; Descriptor_Extension := Descriptor_Extension d; Descriptor_ISO639LanguageAndAudioType :=
  Descriptor_ISO639LanguageAndAudioType d; Descriptor_Length := Descriptor_Length d; Descriptor_LocalTimeOffset := Descriptor_LocalTimeOffset d;
  Descriptor_MaximumBitrate := Descriptor_MaximumBitrate d; Descriptor_NetworkName := Descriptor_NetworkName d; Descriptor_ParentalRating := Some v;
  Descriptor_PrivateDataIndicator := Descriptor_PrivateDataIndicator d; Descriptor_PrivateDataSpecifier := Descriptor_PrivateDataSpecifier d;
  Descriptor_Registration := Descriptor_Registration d; Descriptor_Service := Descriptor_Service d; Descriptor_ShortEvent := Descriptor_ShortEvent d;
  Descriptor_StreamIdentifier := Descriptor_StreamIdentifier d; Descriptor_Subtitling := Descriptor_Subtitling d; Descriptor_Tag := Descriptor_Tag d;
  Descriptor_Teletext := Descriptor_Teletext d; Descriptor_Unknown := Descriptor_Unknown d; Descriptor_UserDefined := Descriptor_UserDefined d;
  Descriptor_VBIData := Descriptor_VBIData d; Descriptor_VBITeletext := Descriptor_VBITeletext d |}.
Definition set_PrivateDataIndicator (d : Descriptor) (v : DescriptorPrivateDataIndicator) : Descriptor := {|
  Descriptor_AC3 := Descriptor_AC3 d; Descriptor_AVCVideo := Descriptor_AVCVideo d; Descriptor_Component := Descriptor_Component d; Descriptor_Content
  := Descriptor_Content d; Descriptor_DataStreamAlignment := Descriptor_DataStreamAlignment d; Descriptor_EnhancedAC3 := Descriptor_EnhancedAC3 d;
  Descriptor_ExtendedEvent := Descriptor_ExtendedEvent d; Descriptor_Extension := Descriptor_Extension d; Descriptor_ISO639LanguageAndAudioType :=
  Descriptor_ISO639LanguageAndAudioType d; Descriptor_Length := Descriptor_Length d; Descriptor_LocalTimeOffset := Descriptor_LocalTimeOffset d;
  Descriptor_MaximumBitrate := Descriptor_MaximumBitrate d; Descriptor_NetworkName := Descriptor_NetworkName d; Descriptor_ParentalRating :=
  Descriptor_ParentalRating d; Descriptor_PrivateDataIndicator := Some v; Descriptor_PrivateDataSpecifier := Descriptor_PrivateDataSpecifier d;
  Descriptor_Registration := Descriptor_Registration d; Descriptor_Service := Descriptor_Service d; Descriptor_ShortEvent := Descriptor_ShortEvent d;
  Descriptor_StreamIdentifier := Descriptor_StreamIdentifier d; Descriptor_Subtitling := Descriptor_Subtitling d; Descriptor_Tag := Descriptor_Tag d;
  Descriptor_Teletext := Descriptor_Teletext d; Descriptor_Unknown := Descriptor_Unknown d; Descriptor_UserDefined := Descriptor_UserDefined d;
  Descriptor_VBIData := Descriptor_VBIData d; Descriptor_VBITeletext := Descriptor_VBITeletext d |}.
Definition set_PrivateDataSpecifier (d : Descriptor) (v : DescriptorPrivateDataSpecifier) : Descriptor := {|
  Descriptor_AC3 := Descriptor_AC3 d; Descriptor_AVCVideo := Descriptor_AVCVideo d; Descriptor_Component := Descriptor_Component d; Descriptor_Content
  := Descriptor_Content d; Descriptor_DataStreamAlignment := Descriptor_DataStreamAlignment d; Descriptor_EnhancedAC3 := Descriptor_EnhancedAC3 d;
  Descriptor_ExtendedEvent := Descriptor_ExtendedEvent d; Descriptor_Extension := Descriptor_Extension d; Descriptor_ISO639LanguageAndAudioType :=
  Descriptor_ISO639LanguageAndAudioType d; Descriptor_Length := Descriptor_Length d; Descriptor_LocalTimeOffset := Descriptor_LocalTimeOffset d;
  Descriptor_MaximumBitrate := Descriptor_MaximumBitrate d; Descriptor_NetworkName := Descriptor_NetworkName d; Descriptor_ParentalRating :=
  Descriptor_ParentalRating d; Descriptor_PrivateDataIndicator := Descriptor_PrivateDataIndicator d; Descriptor_PrivateDataSpecifier := Some v;
  Descriptor_Registration := Descriptor_Registration d; Descriptor_Service := Descriptor_Service d; Descriptor_ShortEvent := Descriptor_ShortEvent d;
  Descriptor_StreamIdentifier := Descriptor_StreamIdentifier d; Descriptor_Subtitling := Descriptor_Subtitling d; Descriptor_Tag := Descriptor_Tag d;
  Descriptor_Teletext := Descriptor_Teletext d; Descriptor_Unknown := Descriptor_Unknown d; Descriptor_UserDefined := Descriptor_UserDefined d;
  Descriptor_VBIData := Descriptor_VBIData d; Descriptor_VBITeletext := Descriptor_VBITeletext d |}.
Definition set_Registration (d : Descriptor) (v : DescriptorRegistration) : Descriptor := {|
  Descriptor_AC3 := Descriptor_AC3 d; Descriptor_AVCVideo := Descriptor_AVCVideo d; Descriptor_Component := Descriptor_Component d; Descriptor_Content
  := Descriptor_Content d; Descriptor_DataStreamAlignment := Descriptor_DataStreamAlignment d; Descriptor_EnhancedAC3 := Descriptor_EnhancedAC3 d;
  Descriptor_ExtendedEvent := Descriptor_ExtendedEvent d; Descriptor_Extension := Descriptor_Extension d; Descriptor_ISO639LanguageAndAudioType :=
  Descriptor_ISO639LanguageAndAudioType d; Descriptor_Length := Descriptor_Length d; Descriptor_LocalTimeOffset := Descriptor_LocalTimeOffset d;
  Descriptor_MaximumBitrate := Descriptor_MaximumBitrate d; Descriptor_NetworkName := Descriptor_NetworkName d; Descriptor_ParentalRating :=
  Descriptor_ParentalRating d; Descriptor_PrivateDataIndicator := Descriptor_PrivateDataIndicator d; Descriptor_PrivateDataSpecifier :=
  Descriptor_PrivateDataSpecifier d; Descriptor_Registration := Some v; Descriptor_Service := Descriptor_Service d; Descriptor_ShortEvent :=
  Descriptor_ShortEvent d; Descriptor_StreamIdentifier := Descriptor_StreamIdentifier d; Descriptor_Subtitling := Descriptor_Subtitling d;
  Descriptor_Tag := Descriptor_Tag d; Descriptor_Teletext := Descriptor_Teletext d; Descriptor_Unknown := Descriptor_Unknown d; Descriptor_UserDefined
  := Descriptor_UserDefined d; Descriptor_VBIData := Descriptor_VBIData d; Descriptor_VBITeletext := Descriptor_VBITeletext d |}.
Definition set_Service (d : Descriptor) (v : DescriptorService) : Descriptor := {|
  Descriptor_AC3 := Descriptor_AC3 d; Descriptor_AVCVideo := Descriptor_AVCVideo d; Descriptor_Component := Descriptor_Component d; Descriptor_Content
  := Descriptor_Content d; Descriptor_DataStreamAlignment := Descriptor_DataStreamAlignment d; Descriptor_EnhancedAC3 := Descriptor_EnhancedAC3 d;
  Descriptor_ExtendedEvent := Descriptor_ExtendedEvent d; Descriptor_Extension := Descriptor_Extension d; Descriptor_ISO639LanguageAndAudioType :=
  Descriptor_ISO639LanguageAndAudioType d; Descriptor_Length := Descriptor_Length d; Descriptor_LocalTimeOffset := Descriptor_LocalTimeOffset d;
  Descriptor_MaximumBitrate := Descriptor_MaximumBitrate d; Descriptor_NetworkName := Descriptor_NetworkName d; Descriptor_ParentalRating :=
  Descriptor_ParentalRating d; Descriptor_PrivateDataIndicator := Descriptor_PrivateDataIndicator d; Descriptor_PrivateDataSpecifier :=
  Descriptor_PrivateDataSpecifier d; Descriptor_Registration := Descriptor_Registration d; Descriptor_Service := Some v; Descriptor_ShortEvent :=
  Descriptor_ShortEvent d; Descriptor_StreamIdentifier := Descriptor_StreamIdentifier d; Descriptor_Subtitling := Descriptor_Subtitling d;
  Descriptor_Tag := Descriptor_Tag d; Descriptor_Teletext := Descriptor_Teletext d; Descriptor_Unknown := Descriptor_Unknown d; Descriptor_UserDefined
  := Descriptor_UserDefined d; Descriptor_VBIData := Descriptor_VBIData d; Descriptor_VBITeletext := Descriptor_VBITeletext d |}.
Definition set_ShortEvent (d : Descriptor) (v : DescriptorShortEvent) : Descriptor := {|
  Descriptor_AC3 := Descriptor_AC3 d; Descriptor_AVCVideo := Descriptor_AVCVideo d; Descriptor_Component := Descriptor_Component d; Descriptor_Content
  := Descriptor_Content d; Descriptor_DataStreamAlignment := Descriptor_DataStreamAlignment d; Descriptor_EnhancedAC3 := Descriptor_EnhancedAC3 d;
  Descriptor_ExtendedEvent := Descriptor_ExtendedEvent d; Descriptor_Extension := Descriptor_Extension d; Descriptor_ISO639LanguageAndAudioType :=
  Descriptor_ISO639LanguageAndAudioType d; Descriptor_Length := Descriptor_Length d; Descriptor_LocalTimeOffset := Descriptor_LocalTimeOffset d;
  Descriptor_MaximumBitrate := Descriptor_MaximumBitrate d; Descriptor_NetworkName := Descriptor_NetworkName d; Descriptor_ParentalRating :=
  Descriptor_ParentalRating d; Descriptor_PrivateDataIndicator := Descriptor_PrivateDataIndicator d; Descriptor_PrivateDataSpecifier :=
  Descriptor_PrivateDataSpecifier d; Descriptor_Registration := Descriptor_Registration d; Descriptor_Service := Descriptor_Service d;
  Descriptor_ShortEvent := Some v; Descriptor_StreamIdentifier := Descriptor_StreamIdentifier d; Descriptor_Subtitling := Descriptor_Subtitling d;
  Descriptor_Tag := Descriptor_Tag d; Descriptor_Teletext := Descriptor_Teletext d; Descriptor_Unknown := Descriptor_Unknown d; Descriptor_UserDefined
  := Descriptor_UserDefined d; Descriptor_VBIData := Descriptor_VBIData d; Descriptor_VBITeletext := Descriptor_VBITeletext d |}.
Definition set_StreamIdentifier (d : Descriptor) (v : DescriptorStreamIdentifier) : Descriptor := {|
  Descriptor_AC3 := Descriptor_AC3 d; Descriptor_AVCVideo := Descriptor_AVCVideo d; Descriptor_Component := Descriptor_Component d; Descriptor_Content
  := Descriptor_Content d; Descriptor_DataStreamAlignment := Descriptor_DataStreamAlignment d; Descriptor_EnhancedAC3 := Descriptor_EnhancedAC3 d;
  Descriptor_ExtendedEvent := Descriptor_ExtendedEvent d; Descriptor_Extension := Descriptor_Extension d; Descriptor_ISO639LanguageAndAudioType :=
  Descriptor_ISO639LanguageAndAudioType d; Descriptor_Length := Descriptor_Length d; Descriptor_LocalTimeOffset := Descriptor_LocalTimeOffset d;
  Descriptor_MaximumBitrate := Descriptor_MaximumBitrate d; Descriptor_NetworkName := Descriptor_NetworkName d; Descriptor_ParentalRating :=
  Descriptor_ParentalRating d; Descriptor_PrivateDataIndicator := Descriptor_PrivateDataIndicator d; Descriptor_PrivateDataSpecifier :=
  Descriptor_PrivateDataSpecifier d; Descriptor_Registration := Descriptor_Registration d; Descriptor_Service := Descriptor_Service d;
  Descriptor_ShortEvent := Descriptor_ShortEvent d; Descriptor_StreamIdentifier := Some v; Descriptor_Subtitling := Descriptor_Subtitling d;
  Descriptor_Tag := Descriptor_Tag d; Descriptor_Teletext := Descriptor_Teletext d; Descriptor_Unknown := Descriptor_Unknown d; Descriptor_UserDefined
  := Descriptor_UserDefined d; Descriptor_VBIData := Descriptor_VBIData d; Descriptor_VBITeletext := Descriptor_VBITeletext d |}.
Definition set_Subtitling (d : Descriptor) (v : DescriptorSubtitling) : Descriptor := {|
  Descriptor_AC3 := Descriptor_AC3 d; Descriptor_AVCVideo := Descriptor_AVCVideo d; Descriptor_Component := Descriptor_Component d; Descriptor_Content
  := Descriptor_Content d; Descriptor_DataStreamAlignment := Descriptor_DataStreamAlignment d; Descriptor_EnhancedAC3 := Descriptor_EnhancedAC3 d;
  Descriptor_ExtendedEvent := Descriptor_ExtendedEvent d; Descriptor_Extension := Descriptor_Extension d; Descriptor_ISO639LanguageAndAudioType :=
  Descriptor_ISO639LanguageAndAudioType d; Descriptor_Length := Descriptor_Length d; Descriptor_LocalTimeOffset := Descriptor_LocalTimeOffset d;
  Descriptor_MaximumBitrate := Descriptor_MaximumBitrate d; Descriptor_NetworkName := Descriptor_NetworkName d; Descriptor_ParentalRating :=
  Descriptor_ParentalRating d; Descriptor_PrivateDataIndicator := Descriptor_PrivateDataIndicator d; Descriptor_PrivateDataSpecifier :=
  Descriptor_PrivateDataSpecifier d; Descriptor_Registration := Descriptor_Registration d; Descriptor_Service := Descriptor_Service d;
  Descriptor_ShortEvent := Descriptor_ShortEvent d; Descriptor_StreamIdentifier := Descriptor_StreamIdentifier d; Descriptor_Subtitling := Some v;
  Descriptor_Tag := Descriptor_Tag d; Descriptor_Teletext := Descriptor_Teletext d; Descriptor_Unknown := Descriptor_Unknown d; Descriptor_UserDefined
  := Descriptor_UserDefined d; Descriptor_VBIData := Descriptor_VBIData d; Descriptor_VBITeletext := Descriptor_VBITeletext d |}.
Definition set_Teletext (d : Descriptor) (v : DescriptorTeletext) : Descriptor := {|
  Descriptor_AC3 := Descriptor_AC3 d; Descriptor_AVCVideo := Descriptor_AVCVideo d; Descriptor_Component := Descriptor_Component d; Descriptor_Content
  := Descriptor_Content d; Descriptor_DataStreamAlignment := Descriptor_DataStreamAlignment d; Descriptor_EnhancedAC3 := Descriptor_EnhancedAC3 d;
  Descriptor_ExtendedEvent := Descriptor_ExtendedEvent d; Descriptor_Extension := Descriptor_Extension d; Descriptor_ISO639LanguageAndAudioType :=
  Descriptor_ISO639LanguageAndAudioType d; Descriptor_Length := Descriptor_Length d; Descriptor_LocalTimeOffset := Descriptor_LocalTimeOffset d;
  Descriptor_MaximumBitrate := Descriptor_MaximumBitrate d; Descriptor_NetworkName := Descriptor_NetworkName d; Descriptor_ParentalRating :=
  Descriptor_ParentalRating d; Descriptor_PrivateDataIndicator := Descriptor_PrivateDataIndicator d; Descriptor_PrivateDataSpecifier :=
  Descriptor_PrivateDataSpecifier d; Descriptor_Registration := Descriptor_Registration d; Descriptor_Service := Descriptor_Service d;
  Descriptor_ShortEvent := Descriptor_ShortEvent d; Descriptor_StreamIdentifier := Descriptor_StreamIdentifier d; Descriptor_Subtitling :=
  Descriptor_Subtitling d; Descriptor_Tag := Descriptor_Tag d; Descriptor_Teletext := Some v; Descriptor_Unknown := Descriptor_Unknown d;
  Descriptor_UserDefined := Descriptor_UserDefined d; Descriptor_VBIData := Descriptor_VBIData d; Descriptor_VBITeletext := Descriptor_VBITeletext d |}.
Definition set_Unknown (d : Descriptor) (v : DescriptorUnknown) : Descriptor := {|
  Descriptor_AC3 := Descriptor_AC3 d; Descriptor_AVCVideo := Descriptor_AVCVideo d; Descriptor_Component := Descriptor_Component d; Descriptor_Content
  := Descriptor_Content d; Descriptor_DataStreamAlignment := Descriptor_DataStreamAlignment d; Descriptor_EnhancedAC3 := Descriptor_EnhancedAC3 d;
  Descriptor_ExtendedEvent := Descriptor_ExtendedEvent d; Descriptor_Extension := Descriptor_Extension d; Descriptor_ISO639LanguageAndAudioType :=
  Descriptor_ISO639LanguageAndAudioType d; Descriptor_Length := Descriptor_Length d; Descriptor_LocalTimeOffset := Descriptor_LocalTimeOffset d;
  Descriptor_MaximumBitrate := Descriptor_MaximumBitrate d; Descriptor_NetworkName := Descriptor_NetworkName d; Descriptor_ParentalRating :=
  Descriptor_ParentalRating d; Descriptor_PrivateDataIndicator := Descriptor_PrivateDataIndicator d; Descriptor_PrivateDataSpecifier :=
  Descriptor_PrivateDataSpecifier d; Descriptor_Registration := Descriptor_Registration d; Descriptor_Service := Descriptor_Service d;
  Descriptor_ShortEvent := Descriptor_ShortEvent d; Descriptor_StreamIdentifier := Descriptor_StreamIdentifier d; Descriptor_Subtitling :=
  Descriptor_Subtitling d; Descriptor_Tag := Descriptor_Tag d; Descriptor_Teletext := Descriptor_Teletext d; Descriptor_Unknown := Some v;
  Descriptor_UserDefined := Descriptor_UserDefined d; Descriptor_VBIData := Descriptor_VBIData d; Descriptor_VBITeletext := Descriptor_VBITeletext d |}.
Definition set_UserDefined (d : Descriptor) (v : list Z) : Descriptor := {|
  Descriptor_AC3 := Descriptor_AC3 d; Descriptor_AVCVideo := Descriptor_AVCVideo d; Descriptor_Component := Descriptor_Component d; Descriptor_Content
  := Descriptor_Content d; Descriptor_DataStreamAlignment := Descriptor_DataStreamAlignment d; Descriptor_EnhancedAC3 := Descriptor_EnhancedAC3 d;
  Descriptor_ExtendedEvent := Descriptor_ExtendedEvent d; Descriptor_Extension := Descriptor_Extension d; Descriptor_ISO639LanguageAndAudioType :=
  Descriptor_ISO639LanguageAndAudioType d; Descriptor_Length := Descriptor_Length d; Descriptor_LocalTimeOffset := Descriptor_LocalTimeOffset d;
  Descriptor_MaximumBitrate := Descriptor_MaximumBitrate d; Descriptor_NetworkName := Descriptor_NetworkName d; Descriptor_ParentalRating :=
  Descriptor_ParentalRating d; Descriptor_PrivateDataIndicator := Descriptor_PrivateDataIndicator d; Descriptor_PrivateDataSpecifier :=
  Descriptor_PrivateDataSpecifier d; Descriptor_Registration := Descriptor_Registration d; Descriptor_Service := Descriptor_Service d;
  Descriptor_ShortEvent := Descriptor_ShortEvent d; Descriptor_StreamIdentifier := Descriptor_StreamIdentifier d; Descriptor_Subtitling :=
  Descriptor_Subtitling d; Descriptor_Tag := Descriptor_Tag d; Descriptor_Teletext := Descriptor_Teletext d; Descriptor_Unknown := Descriptor_Unknown
  d; Descriptor_UserDefined := v; Descriptor_VBIData := Descriptor_VBIData d; Descriptor_VBITeletext := Descriptor_VBITeletext d |}.
Definition set_VBIData (d : Descriptor) (v : DescriptorVBIData) : Descriptor := {|
  Descriptor_AC3 := Descriptor_AC3 d; Descriptor_AVCVideo := Descriptor_AVCVideo d; Descriptor_Component := Descriptor_Component d; Descriptor_Content
  := Descriptor_Content d; Descriptor_DataStreamAlignment := Descriptor_DataStreamAlignment d; Descriptor_EnhancedAC3 := Descriptor_EnhancedAC3 d;
  Descriptor_ExtendedEvent := Descriptor_ExtendedEvent d; Descriptor_Extension := Descriptor_Extension d; Descriptor_ISO639LanguageAndAudioType :=
  Descriptor_ISO639LanguageAndAudioType d; Descriptor_Length := Descriptor_Length d; Descriptor_LocalTimeOffset := Descriptor_LocalTimeOffset d;
  Descriptor_MaximumBitrate := Descriptor_MaximumBitrate d; Descriptor_NetworkName := Descriptor_NetworkName d; Descriptor_ParentalRating :=
  Descriptor_ParentalRating d; Descriptor_PrivateDataIndicator := Descriptor_PrivateDataIndicator d; Descriptor_PrivateDataSpecifier :=
  Descriptor_PrivateDataSpecifier d; Descriptor_Registration := Descriptor_Registration d; Descriptor_Service := Descriptor_Service d;
  Descriptor_ShortEvent := Descriptor_ShortEvent d; Descriptor_StreamIdentifier := Descriptor_StreamIdentifier d; Descriptor_Subtitling :=
  Descriptor_Subtitling d; Descriptor_Tag := Descriptor_Tag d; Descriptor_Teletext := Descriptor_Teletext d; Descriptor_Unknown := Descriptor_Unknown
  d; Descriptor_UserDefined := Descriptor_UserDefined d; Descriptor_VBIData := Some v; Descriptor_VBITeletext := Descriptor_VBITeletext d |}.
Definition set_VBITeletext (d : Descriptor) (v : DescriptorTeletext) : Descriptor := {|
  Descriptor_AC3 := Descriptor_AC3 d; Descriptor_AVCVideo := Descriptor_AVCVideo d; Descriptor_Component := Descriptor_Component d; Descriptor_Content
  := Descriptor_Content d; Descriptor_DataStreamAlignment := Descriptor_DataStreamAlignment d; Descriptor_EnhancedAC3 := Descriptor_EnhancedAC3 d;
  Descriptor_ExtendedEvent := Descriptor_ExtendedEvent d; Descriptor_Extension := Descriptor_Extension d; Descriptor_ISO639LanguageAndAudioType :=
  Descriptor_ISO639LanguageAndAudioType d; Descriptor_Length := Descriptor_Length d; Descriptor_LocalTimeOffset := Descriptor_LocalTimeOffset d;
  Descriptor_MaximumBitrate := Descriptor_MaximumBitrate d; Descriptor_NetworkName := Descriptor_NetworkName d; Descriptor_ParentalRating :=
  Descriptor_ParentalRating d; Descriptor_PrivateDataIndicator := Descriptor_PrivateDataIndicator d; Descriptor_PrivateDataSpecifier :=
  Descriptor_PrivateDataSpecifier d; Descriptor_Registration := Descriptor_Registration d; Descriptor_Service := Descriptor_Service d;
  Descriptor_ShortEvent := Descriptor_ShortEvent d; Descriptor_StreamIdentifier := Descriptor_StreamIdentifier d; Descriptor_Subtitling :=
  Descriptor_Subtitling d; Descriptor_Tag := Descriptor_Tag d; Descriptor_Teletext := Descriptor_Teletext d; Descriptor_Unknown := Descriptor_Unknown
  d; Descriptor_UserDefined := Descriptor_UserDefined d; Descriptor_VBIData := Descriptor_VBIData d; Descriptor_VBITeletext := Some v |}.

(* ---------------- parseDescriptors ---------------- *)

Definition is_user_defined (tag : Z) : bool := (128 <=? tag) && (tag <=? 254).

(* the tag switch of parseDescriptors: the typed body for (tag, length), read with offsetEnd = the declared end *)
Definition parse_descriptor_body (tag len offsetEnd : Z) : IM Descriptor :=
  let d0 := desc_hdr tag len in
  if is_user_defined tag then bs <- next_bytes len ;; iret (set_UserDefined d0 bs)
  else if tag =? C_DescriptorTagAC3 then v <- new_descriptor_ac3 offsetEnd ;; iret (set_AC3 d0 v)
  else if tag =? C_DescriptorTagAVCVideo then v <- new_descriptor_avc_video ;; iret (set_AVCVideo d0 v)
  else if tag =? C_DescriptorTagComponent then v <- new_descriptor_component offsetEnd ;; iret (set_Component d0 v)
  else if tag =? C_DescriptorTagContent then v <- new_descriptor_content offsetEnd ;; iret (set_Content d0 v)
  else if tag =? C_DescriptorTagDataStreamAlignment then v <- new_descriptor_data_stream_alignment ;; iret (set_DataStreamAlignment d0 v)
  else if tag =? C_DescriptorTagEnhancedAC3 then v <- new_descriptor_enhanced_ac3 offsetEnd ;; iret (set_EnhancedAC3 d0 v)
  else if tag =? C_DescriptorTagExtendedEvent then v <- new_descriptor_extended_event ;; iret (set_ExtendedEvent d0 v)
  else if tag =? C_DescriptorTagExtension then v <- new_descriptor_extension offsetEnd ;; iret (set_Extension d0 v)
  else if tag =? C_DescriptorTagISO639LanguageAndAudioType then v <- new_descriptor_iso639 offsetEnd ;; iret (set_ISO639LanguageAndAudioType d0 v)
  else if tag =? C_DescriptorTagLocalTimeOffset then v <- new_descriptor_local_time_offset offsetEnd ;; iret (set_LocalTimeOffset d0 v)
  else if tag =? C_DescriptorTagMaximumBitrate then v <- new_descriptor_maximum_bitrate ;; iret (set_MaximumBitrate d0 v)
  else if tag =? C_DescriptorTagNetworkName then v <- new_descriptor_network_name offsetEnd ;; iret (set_NetworkName d0 v)
  else if tag =? C_DescriptorTagParentalRating then v <- new_descriptor_parental_rating offsetEnd ;; iret (set_ParentalRating d0 v)
  else if tag =? C_DescriptorTagPrivateDataIndicator then v <- new_descriptor_private_data_indicator ;; iret (set_PrivateDataIndicator d0 v)
  else if tag =? C_DescriptorTagPrivateDataSpecifier then v <- new_descriptor_private_data_specifier ;; iret (set_PrivateDataSpecifier d0 v)
  else if tag =? C_DescriptorTagRegistration then v <- new_descriptor_registration offsetEnd ;; iret (set_Registration d0 v)
  else if tag =? C_DescriptorTagService then v <- new_descriptor_service ;; iret (set_Service d0 v)
  else if tag =? C_DescriptorTagShortEvent then v <- new_descriptor_short_event ;; iret (set_ShortEvent d0 v)
  else if tag =? C_DescriptorTagStreamIdentifier then v <- new_descriptor_stream_identifier ;; iret (set_StreamIdentifier d0 v)
  else if tag =? C_DescriptorTagSubtitling then v <- new_descriptor_subtitling offsetEnd ;; iret (set_Subtitling d0 v)
  else if tag =? C_DescriptorTagTeletext then v <- new_descriptor_teletext offsetEnd ;; iret (set_Teletext d0 v)
  else if tag =? C_DescriptorTagVBIData then v <- new_descriptor_vbi_data offsetEnd ;; iret (set_VBIData d0 v)
  else if tag =? C_DescriptorTagVBITeletext then v <- new_descriptor_teletext offsetEnd ;; iret (set_VBITeletext d0 v)
  else v <- new_descriptor_unknown tag len ;; iret (set_Unknown d0 v).

(* one round of the loop of parseDescriptors, with the body parser as an argument: tag and length byte, the
   body when the length is positive, then Seek(offsetDescriptorEnd) *)
Definition parse_descriptor_with (body : Z -> Z -> Z -> IM Descriptor) : IM Descriptor :=
  bs <- next_bytes_nocopy 2 ;;
  let tag := byte_at bs 0 in
  let len := byte_at bs 1 in
  if len >? 0 then
    off <- ioffset ;;
    d <- body tag len (off + len) ;;
    iseek (off + len) ;;;
    iret d
  else iret (desc_hdr tag len).

Definition parse_descriptors_with (body : Z -> Z -> Z -> IM Descriptor) : IM (list Descriptor) :=
  bs <- next_bytes_nocopy 2 ;;
  let length := bitsf bs 4 12 in
  if length >? 0 then
    off <- ioffset ;;
    iloop (off + length) (parse_descriptor_with body)
  else iret [].

Definition parse_descriptors : IM (list Descriptor) := parse_descriptors_with parse_descriptor_body.

(* ---------------- calcDescriptor*Length (hand-written part) ---------------- *)

Definition calc_user_defined_length (d : list Z) : Z := (blen d) mod 256.

Definition calc_extension_length (d : option DescriptorExtension) : Z :=
  match d with
  | None => 0
  | Some e =>
      let ret := 1 in
      let ret := if DescriptorExtension_Tag e =? C_DescriptorTagExtensionSupplementaryAudio
                 then ret + calcDescriptorExtensionSupplementaryAudioLength (DescriptorExtension_SupplementaryAudio e)
                 else match DescriptorExtension_Unknown e with Some bs => ret + blen bs | None => ret end in
      ret mod 256
  end.

Definition calc_descriptor_length (d : Descriptor) : Z :=
  let tag := Descriptor_Tag d in
  if is_user_defined tag then calc_user_defined_length (Descriptor_UserDefined d)
  else if tag =? C_DescriptorTagAC3 then calcDescriptorAC3Length (Descriptor_AC3 d)
  else if tag =? C_DescriptorTagAVCVideo then calcDescriptorAVCVideoLength (Descriptor_AVCVideo d)
  else if tag =? C_DescriptorTagComponent then calcDescriptorComponentLength (Descriptor_Component d)
  else if tag =? C_DescriptorTagContent then calcDescriptorContentLength (Descriptor_Content d)
  else if tag =? C_DescriptorTagDataStreamAlignment then calcDescriptorDataStreamAlignmentLength (Descriptor_DataStreamAlignment d)
  else if tag =? C_DescriptorTagEnhancedAC3 then calcDescriptorEnhancedAC3Length (Descriptor_EnhancedAC3 d)
  else if tag =? C_DescriptorTagExtendedEvent then fst (calcDescriptorExtendedEventLength (Descriptor_ExtendedEvent d))
  else if tag =? C_DescriptorTagExtension then calc_extension_length (Descriptor_Extension d)
  else if tag =? C_DescriptorTagISO639LanguageAndAudioType then calcDescriptorISO639LanguageAndAudioTypeLength (Descriptor_ISO639LanguageAndAudioType d)
  else if tag =? C_DescriptorTagLocalTimeOffset then calcDescriptorLocalTimeOffsetLength (Descriptor_LocalTimeOffset d)
  else if tag =? C_DescriptorTagMaximumBitrate then calcDescriptorMaximumBitrateLength (Descriptor_MaximumBitrate d)
  else if tag =? C_DescriptorTagNetworkName then calcDescriptorNetworkNameLength (Descriptor_NetworkName d)
  else if tag =? C_DescriptorTagParentalRating then calcDescriptorParentalRatingLength (Descriptor_ParentalRating d)
  else if tag =? C_DescriptorTagPrivateDataIndicator then calcDescriptorPrivateDataIndicatorLength (Descriptor_PrivateDataIndicator d)
  else if tag =? C_DescriptorTagPrivateDataSpecifier then calcDescriptorPrivateDataSpecifierLength (Descriptor_PrivateDataSpecifier d)
  else if tag =? C_DescriptorTagRegistration then calcDescriptorRegistrationLength (Descriptor_Registration d)
  else if tag =? C_DescriptorTagService then calcDescriptorServiceLength (Descriptor_Service d)
  else if tag =? C_DescriptorTagShortEvent then calcDescriptorShortEventLength (Descriptor_ShortEvent d)
  else if tag =? C_DescriptorTagStreamIdentifier then calcDescriptorStreamIdentifierLength (Descriptor_StreamIdentifier d)
  else if tag =? C_DescriptorTagSubtitling then calcDescriptorSubtitlingLength (Descriptor_Subtitling d)
  else if tag =? C_DescriptorTagTeletext then calcDescriptorTeletextLength (Descriptor_Teletext d)
  else if tag =? C_DescriptorTagVBIData then calcDescriptorVBIDataLength (Descriptor_VBIData d)
  else if tag =? C_DescriptorTagVBITeletext then calcDescriptorTeletextLength (Descriptor_VBITeletext d)
  else calcDescriptorUnknownLength (Descriptor_Unknown d).

(* uint16 accumulation *)
Definition calc_descriptors_length (ds : list Descriptor) : Z :=
  fold_left (fun length d => (((length + 2) mod 65536) + calc_descriptor_length d) mod 65536) ds 0.

(* ---------------- writeDescriptor<X> ---------------- *)

Definition wif (c : bool) (l : list witem) : list witem := if c then l else [].

Definition enc_ac3 (d : DescriptorAC3) : list witem :=
  [WBool (DescriptorAC3_HasComponentType d); WBool (DescriptorAC3_HasBSID d);
   WBool (DescriptorAC3_HasMainID d); WBool (DescriptorAC3_HasASVC d); WBits 4 255] ++
  wif (DescriptorAC3_HasComponentType d) [wu8 (DescriptorAC3_ComponentType d)] ++
  wif (DescriptorAC3_HasBSID d) [wu8 (DescriptorAC3_BSID d)] ++
  wif (DescriptorAC3_HasMainID d) [wu8 (DescriptorAC3_MainID d)] ++
  wif (DescriptorAC3_HasASVC d) [wu8 (DescriptorAC3_ASVC d)] ++
  [WBytes (DescriptorAC3_AdditionalInfo d)].

Definition enc_avc_video (d : DescriptorAVCVideo) : list witem :=
  [wu8 (DescriptorAVCVideo_ProfileIDC d);
   WBool (DescriptorAVCVideo_ConstraintSet0Flag d); WBool (DescriptorAVCVideo_ConstraintSet1Flag d);
   WBool (DescriptorAVCVideo_ConstraintSet2Flag d); WBits 5 (DescriptorAVCVideo_CompatibleFlags d);
   wu8 (DescriptorAVCVideo_LevelIDC d);
   WBool (DescriptorAVCVideo_AVCStillPresent d); WBool (DescriptorAVCVideo_AVC24HourPictureFlag d); WBits 6 255].

Definition enc_component (d : DescriptorComponent) : list witem :=
  [WBits 4 (DescriptorComponent_StreamContentExt d); WBits 4 (DescriptorComponent_StreamContent d);
   wu8 (DescriptorComponent_ComponentType d); wu8 (DescriptorComponent_ComponentTag d)] ++
  wbytesn (DescriptorComponent_ISO639LanguageCode d) 3 0 ++
  [WBytes (DescriptorComponent_Text d)].

Definition enc_content_item (it : DescriptorContentItem) : list witem :=
  [WBits 4 (DescriptorContentItem_ContentNibbleLevel1 it); WBits 4 (DescriptorContentItem_ContentNibbleLevel2 it);
   wu8 (DescriptorContentItem_UserByte it)].
Definition enc_content (d : DescriptorContent) : list witem :=
  flat_map enc_content_item (DescriptorContent_Items d).

Definition enc_data_stream_alignment (d : DescriptorDataStreamAlignment) : list witem :=
  [wu8 (DescriptorDataStreamAlignment_Type d)].

Definition enc_enhanced_ac3 (d : DescriptorEnhancedAC3) : list witem :=
  [WBool (DescriptorEnhancedAC3_HasComponentType d); WBool (DescriptorEnhancedAC3_HasBSID d);
   WBool (DescriptorEnhancedAC3_HasMainID d); WBool (DescriptorEnhancedAC3_HasASVC d);
   WBool (DescriptorEnhancedAC3_MixInfoExists d); WBool (DescriptorEnhancedAC3_HasSubStream1 d);
   WBool (DescriptorEnhancedAC3_HasSubStream2 d); WBool (DescriptorEnhancedAC3_HasSubStream3 d)] ++
  wif (DescriptorEnhancedAC3_HasComponentType d) [wu8 (DescriptorEnhancedAC3_ComponentType d)] ++
  wif (DescriptorEnhancedAC3_HasBSID d) [wu8 (DescriptorEnhancedAC3_BSID d)] ++
  wif (DescriptorEnhancedAC3_HasMainID d) [wu8 (DescriptorEnhancedAC3_MainID d)] ++
  wif (DescriptorEnhancedAC3_HasASVC d) [wu8 (DescriptorEnhancedAC3_ASVC d)] ++
  wif (DescriptorEnhancedAC3_HasSubStream1 d) [wu8 (DescriptorEnhancedAC3_SubStream1 d)] ++
  wif (DescriptorEnhancedAC3_HasSubStream2 d) [wu8 (DescriptorEnhancedAC3_SubStream2 d)] ++
  wif (DescriptorEnhancedAC3_HasSubStream3 d) [wu8 (DescriptorEnhancedAC3_SubStream3 d)] ++
  [WBytes (DescriptorEnhancedAC3_AdditionalInfo d)].

Definition enc_extended_event_item (it : DescriptorExtendedEventItem) : list witem :=
  [wu8 (blen (DescriptorExtendedEventItem_Description it)); WBytes (DescriptorExtendedEventItem_Description it);
   wu8 (blen (DescriptorExtendedEventItem_Content it)); WBytes (DescriptorExtendedEventItem_Content it)].

Definition enc_extended_event (d : DescriptorExtendedEvent) : list witem :=
  let lengthOfItems := snd (calcDescriptorExtendedEventLength (Some d)) in
  [WBits 4 (DescriptorExtendedEvent_Number d); WBits 4 (DescriptorExtendedEvent_LastDescriptorNumber d)] ++
  wbytesn (DescriptorExtendedEvent_ISO639LanguageCode d) 3 0 ++
  [wu8 lengthOfItems] ++
  flat_map enc_extended_event_item (DescriptorExtendedEvent_Items d) ++
  [wu8 (blen (DescriptorExtendedEvent_Text d)); WBytes (DescriptorExtendedEvent_Text d)].

Definition enc_extension_supplementary_audio (d : DescriptorExtensionSupplementaryAudio) : list witem :=
  [WBool (DescriptorExtensionSupplementaryAudio_MixType d);
   WBits 5 (DescriptorExtensionSupplementaryAudio_EditorialClassification d);
   WBool true; WBool (DescriptorExtensionSupplementaryAudio_HasLanguageCode d)] ++
  wif (DescriptorExtensionSupplementaryAudio_HasLanguageCode d)
      (wbytesn (DescriptorExtensionSupplementaryAudio_LanguageCode d) 3 0) ++
  [WBytes (DescriptorExtensionSupplementaryAudio_PrivateData d)].

Definition enc_extension (d : DescriptorExtension) : res (list witem) :=
  if DescriptorExtension_Tag d =? C_DescriptorTagExtensionSupplementaryAudio then
    res_map (fun sa => wu8 (DescriptorExtension_Tag d) :: enc_extension_supplementary_audio sa)
            (dneed (DescriptorExtension_SupplementaryAudio d))
  else Ok (wu8 (DescriptorExtension_Tag d) ::
           match DescriptorExtension_Unknown d with Some bs => [WBytes bs] | None => [] end).

Definition enc_iso639 (d : DescriptorISO639LanguageAndAudioType) : list witem :=
  wbytesn (DescriptorISO639LanguageAndAudioType_Language d) 3 0 ++
  [wu8 (DescriptorISO639LanguageAndAudioType_Type d)].

Definition enc_local_time_offset_item (it : DescriptorLocalTimeOffsetItem) : list witem :=
  wbytesn (DescriptorLocalTimeOffsetItem_CountryCode it) 3 0 ++
  [WBits 6 (DescriptorLocalTimeOffsetItem_CountryRegionID it); WBits 1 255;
   WBool (DescriptorLocalTimeOffsetItem_LocalTimeOffsetPolarity it)] ++
  enc_dvb_duration_minutes (DescriptorLocalTimeOffsetItem_LocalTimeOffset it) ++
  enc_dvb_time (DescriptorLocalTimeOffsetItem_TimeOfChange it) ++
  enc_dvb_duration_minutes (DescriptorLocalTimeOffsetItem_NextTimeOffset it).
Definition enc_local_time_offset (d : DescriptorLocalTimeOffset) : list witem :=
  flat_map enc_local_time_offset_item (DescriptorLocalTimeOffset_Items d).

(* uint32(d.Bitrate/50) *)
Definition enc_maximum_bitrate (d : DescriptorMaximumBitrate) : list witem :=
  [WBits 2 255; WBits 22 (DescriptorMaximumBitrate_Bitrate d / 50)].

Definition enc_network_name (d : DescriptorNetworkName) : list witem :=
  [WBytes (DescriptorNetworkName_Name d)].

Definition enc_parental_rating_item (it : DescriptorParentalRatingItem) : list witem :=
  wbytesn (DescriptorParentalRatingItem_CountryCode it) 3 0 ++ [wu8 (DescriptorParentalRatingItem_Rating it)].
Definition enc_parental_rating (d : DescriptorParentalRating) : list witem :=
  flat_map enc_parental_rating_item (DescriptorParentalRating_Items d).

Definition enc_private_data_indicator (d : DescriptorPrivateDataIndicator) : list witem :=
  [wu32 (DescriptorPrivateDataIndicator_Indicator d)].
Definition enc_private_data_specifier (d : DescriptorPrivateDataSpecifier) : list witem :=
  [wu32 (DescriptorPrivateDataSpecifier_Specifier d)].

Definition enc_registration (d : DescriptorRegistration) : list witem :=
  [wu32 (DescriptorRegistration_FormatIdentifier d); WBytes (DescriptorRegistration_AdditionalIdentificationInfo d)].

Definition enc_service (d : DescriptorService) : list witem :=
  [wu8 (DescriptorService_Type d);
   wu8 (blen (DescriptorService_Provider d)); WBytes (DescriptorService_Provider d);
   wu8 (blen (DescriptorService_Name d)); WBytes (DescriptorService_Name d)].

Definition enc_short_event (d : DescriptorShortEvent) : list witem :=
  wbytesn (DescriptorShortEvent_Language d) 3 0 ++
  [wu8 (blen (DescriptorShortEvent_EventName d)); WBytes (DescriptorShortEvent_EventName d);
   wu8 (blen (DescriptorShortEvent_Text d)); WBytes (DescriptorShortEvent_Text d)].

Definition enc_stream_identifier (d : DescriptorStreamIdentifier) : list witem :=
  [wu8 (DescriptorStreamIdentifier_ComponentTag d)].

Definition enc_subtitling_item (it : DescriptorSubtitlingItem) : list witem :=
  wbytesn (DescriptorSubtitlingItem_Language it) 3 0 ++
  [wu8 (DescriptorSubtitlingItem_Type it); wu16 (DescriptorSubtitlingItem_CompositionPageID it);
   wu16 (DescriptorSubtitlingItem_AncillaryPageID it)].
Definition enc_subtitling (d : DescriptorSubtitling) : list witem :=
  flat_map enc_subtitling_item (DescriptorSubtitling_Items d).

(* item.Page/10 and item.Page%10, four bits each *)
Definition enc_teletext_item (it : DescriptorTeletextItem) : list witem :=
  wbytesn (DescriptorTeletextItem_Language it) 3 0 ++
  [WBits 5 (DescriptorTeletextItem_Type it); WBits 3 (DescriptorTeletextItem_Magazine it);
   WBits 4 (DescriptorTeletextItem_Page it / 10); WBits 4 (DescriptorTeletextItem_Page it mod 10)].
Definition enc_teletext (d : DescriptorTeletext) : list witem :=
  flat_map enc_teletext_item (DescriptorTeletext_Items d).

Definition enc_vbi_line (l : DescriptorVBIDataDescriptor) : list witem :=
  [WBits 2 255; WBool (DescriptorVBIDataDescriptor_FieldParity l); WBits 5 (DescriptorVBIDataDescriptor_LineOffset l)].
Definition enc_vbi_data_service (s : DescriptorVBIDataService) : list witem :=
  wu8 (DescriptorVBIDataService_DataServiceID s) ::
  (if is_vbi_line_service (DescriptorVBIDataService_DataServiceID s)
   then wu8 (Z.of_nat (length (DescriptorVBIDataService_Descriptors s))) ::
        flat_map enc_vbi_line (DescriptorVBIDataService_Descriptors s)
   else [wu8 1; wu8 255]).
Definition enc_vbi_data (d : DescriptorVBIData) : list witem :=
  flat_map enc_vbi_data_service (DescriptorVBIData_Services d).

Definition enc_unknown (d : DescriptorUnknown) : list witem := [WBytes (DescriptorUnknown_Content d)].

(* ---------------- writeDescriptor / writeDescriptors / writeDescriptorsWithLength ---------------- *)

(* the tag switch of writeDescriptor (reached only when the computed length is not 0) *)
Definition enc_descriptor_body (d : Descriptor) : res (list witem) :=
  let tag := Descriptor_Tag d in
  if is_user_defined tag then Ok [WBytes (Descriptor_UserDefined d)]
  else if tag =? C_DescriptorTagAC3 then res_map enc_ac3 (dneed (Descriptor_AC3 d))
  else if tag =? C_DescriptorTagAVCVideo then res_map enc_avc_video (dneed (Descriptor_AVCVideo d))
  else if tag =? C_DescriptorTagComponent then res_map enc_component (dneed (Descriptor_Component d))
  else if tag =? C_DescriptorTagContent then res_map enc_content (dneed (Descriptor_Content d))
  else if tag =? C_DescriptorTagDataStreamAlignment then res_map enc_data_stream_alignment (dneed (Descriptor_DataStreamAlignment d))
  else if tag =? C_DescriptorTagEnhancedAC3 then res_map enc_enhanced_ac3 (dneed (Descriptor_EnhancedAC3 d))
  else if tag =? C_DescriptorTagExtendedEvent then res_map enc_extended_event (dneed (Descriptor_ExtendedEvent d))
  else if tag =? C_DescriptorTagExtension then res_bind (dneed (Descriptor_Extension d)) enc_extension
  else if tag =? C_DescriptorTagISO639LanguageAndAudioType then res_map enc_iso639 (dneed (Descriptor_ISO639LanguageAndAudioType d))
  else if tag =? C_DescriptorTagLocalTimeOffset then res_map enc_local_time_offset (dneed (Descriptor_LocalTimeOffset d))
  else if tag =? C_DescriptorTagMaximumBitrate then res_map enc_maximum_bitrate (dneed (Descriptor_MaximumBitrate d))
  else if tag =? C_DescriptorTagNetworkName then res_map enc_network_name (dneed (Descriptor_NetworkName d))
  else if tag =? C_DescriptorTagParentalRating then res_map enc_parental_rating (dneed (Descriptor_ParentalRating d))
  else if tag =? C_DescriptorTagPrivateDataIndicator then res_map enc_private_data_indicator (dneed (Descriptor_PrivateDataIndicator d))
  else if tag =? C_DescriptorTagPrivateDataSpecifier then res_map enc_private_data_specifier (dneed (Descriptor_PrivateDataSpecifier d))
  else if tag =? C_DescriptorTagRegistration then res_map enc_registration (dneed (Descriptor_Registration d))
  else if tag =? C_DescriptorTagService then res_map enc_service (dneed (Descriptor_Service d))
  else if tag =? C_DescriptorTagShortEvent then res_map enc_short_event (dneed (Descriptor_ShortEvent d))
  else if tag =? C_DescriptorTagStreamIdentifier then res_map enc_stream_identifier (dneed (Descriptor_StreamIdentifier d))
  else if tag =? C_DescriptorTagSubtitling then res_map enc_subtitling (dneed (Descriptor_Subtitling d))
  else if tag =? C_DescriptorTagTeletext then res_map enc_teletext (dneed (Descriptor_Teletext d))
  else if tag =? C_DescriptorTagVBIData then res_map enc_vbi_data (dneed (Descriptor_VBIData d))
  else if tag =? C_DescriptorTagVBITeletext then res_map enc_teletext (dneed (Descriptor_VBITeletext d))
  else res_map enc_unknown (dneed (Descriptor_Unknown d)).

(* writeDescriptor: tag, computed length, and the body unless the computed length is 0 *)
Definition enc_descriptor (d : Descriptor) : res (list witem) :=
  let len := calc_descriptor_length d in
  let hdr := [wu8 (Descriptor_Tag d); wu8 len] in
  if len =? 0 then Ok hdr else res_map (app hdr) (enc_descriptor_body d).

(* the `written` count writeDescriptor returns *)
Definition descriptor_written (d : Descriptor) : Z := calc_descriptor_length d + 2.

Fixpoint enc_descriptors (ds : list Descriptor) : res (list witem) :=
  match ds with
  | [] => Ok []
  | d :: r => res_bind (enc_descriptor d) (fun a => res_map (app a) (enc_descriptors r))
  end.

Definition descriptors_written (ds : list Descriptor) : Z :=
  fold_left (fun n d => n + descriptor_written d) ds 0.

(* writeDescriptorsWithLength: 4 reserved bits, the low 12 bits of calcDescriptorsLength, the loop *)
Definition enc_descriptors_with_length (ds : list Descriptor) : res (list witem) :=
  res_map (app [WBits 4 255; WBits 12 (calc_descriptors_length ds)]) (enc_descriptors ds).
