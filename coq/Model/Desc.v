(* STUB: replaced at merge by the C14 / C15 model *)
(* descriptor.go: parseDescriptors / calcDescriptorsLength / writeDescriptorsWithLength / writeDescriptors,
   restricted to descriptors without a typed body: user-defined tags 0x80..0xfe (UserDefined bytes) and
   tags outside the switch of parseDescriptors (DescriptorUnknown).  A typed tag with a non-empty body
   is NOT supported by this stub: parsing it yields Err E_stub, writing it yields Err E_stub. *)
From Coq Require Import ZArith List Lia Bool.
Require Import Base.Bits Base.Iter Base.Wr Gen.Consts Gen.Types Gen.Preds.
Import ListNotations.
Open Scope Z_scope.
Open Scope iter_scope.

Definition E_stub : Z := 0.
Definition E_desc_fuel : Z := 99.

Definition typed_tags : list Z :=
  [C_DescriptorTagAC3; C_DescriptorTagAVCVideo; C_DescriptorTagComponent; C_DescriptorTagContent;
   C_DescriptorTagDataStreamAlignment; C_DescriptorTagEnhancedAC3; C_DescriptorTagExtendedEvent;
   C_DescriptorTagExtension; C_DescriptorTagISO639LanguageAndAudioType; C_DescriptorTagLocalTimeOffset;
   C_DescriptorTagMaximumBitrate; C_DescriptorTagNetworkName; C_DescriptorTagParentalRating;
   C_DescriptorTagPrivateDataIndicator; C_DescriptorTagPrivateDataSpecifier; C_DescriptorTagRegistration;
   C_DescriptorTagService; C_DescriptorTagShortEvent; C_DescriptorTagStreamIdentifier; C_DescriptorTagSubtitling;
   C_DescriptorTagTeletext; C_DescriptorTagVBIData; C_DescriptorTagVBITeletext].
Definition is_typed_tag (t : Z) : bool := existsb (Z.eqb t) typed_tags.
Definition is_user_tag (t : Z) : bool := (128 <=? t) && (t <=? 254).

Definition mk_plain_descriptor (tag len : Z) (unk : option DescriptorUnknown) (ud : list Z) : Descriptor :=
  {| Descriptor_AC3 := None; Descriptor_AVCVideo := None; Descriptor_Component := None; Descriptor_Content := None;
     Descriptor_DataStreamAlignment := None; Descriptor_EnhancedAC3 := None; Descriptor_ExtendedEvent := None;
     Descriptor_Extension := None; Descriptor_ISO639LanguageAndAudioType := None; Descriptor_Length := len;
     Descriptor_LocalTimeOffset := None; Descriptor_MaximumBitrate := None; Descriptor_NetworkName := None;
     Descriptor_ParentalRating := None; Descriptor_PrivateDataIndicator := None; Descriptor_PrivateDataSpecifier := None;
     Descriptor_Registration := None; Descriptor_Service := None; Descriptor_ShortEvent := None;
     Descriptor_StreamIdentifier := None; Descriptor_Subtitling := None; Descriptor_Tag := tag;
     Descriptor_Teletext := None; Descriptor_Unknown := unk; Descriptor_UserDefined := ud;
     Descriptor_VBIData := None; Descriptor_VBITeletext := None |}.

(* one descriptor of the loop *)
Definition parse_descriptor : IM Descriptor :=
  bs <- next_bytes_nocopy 2 ;;
  let tag := byte_at bs 0 in
  let len := byte_at bs 1 in
  if len >? 0 then
    off <- ioffset ;;
    let offsetDescriptorEnd := off + len in
    d <- (if is_user_tag tag then
            ud <- next_bytes len ;; iret (mk_plain_descriptor tag len None ud)
          else if is_typed_tag tag then ierr E_stub
          else
            c <- next_bytes len ;;
            iret (mk_plain_descriptor tag len
                    (Some {| DescriptorUnknown_Content := c; DescriptorUnknown_Tag := tag |}) [])) ;;
    iseek offsetDescriptorEnd ;;;
    iret d
  else iret (mk_plain_descriptor tag len None []).

Fixpoint desc_loop (fuel : nat) (offsetEnd : Z) : IM (list Descriptor) :=
  match fuel with
  | O => ierr E_desc_fuel
  | S k =>
      off <- ioffset ;;
      if off <? offsetEnd then
        d <- parse_descriptor ;;
        r <- desc_loop k offsetEnd ;;
        iret (d :: r)
      else iret []
  end.

(* parseDescriptors: 12-bit loop length, then descriptors until the end offset *)
Definition parse_descriptors : IM (list Descriptor) :=
  bs <- next_bytes_nocopy 2 ;;
  let length := bitsf bs 4 12 in
  if length >? 0 then
    off <- ioffset ;;
    n <- ilength ;;
    desc_loop (S (Z.to_nat n)) (off + length)
  else iret [].

(* calcDescriptorLength (uint8) *)
Definition calc_descriptor_length (d : Descriptor) : Z :=
  if is_user_tag (Descriptor_Tag d) then Z.of_nat (length (Descriptor_UserDefined d)) mod 256
  else match Descriptor_Unknown d with
       | None => 0
       | Some u => Z.of_nat (length (DescriptorUnknown_Content u)) mod 256
       end.

(* calcDescriptorsLength (uint16) *)
Definition calc_descriptors_length (ds : list Descriptor) : Z :=
  fold_left (fun acc d => ((acc + 2) mod 65536 + calc_descriptor_length d) mod 65536) ds 0.

(* writeDescriptor *)
Definition enc_descriptor (d : Descriptor) : res (list witem) :=
  let tag := Descriptor_Tag d in
  let len := calc_descriptor_length d in
  let head := [wu8 tag; wu8 len] in
  if is_typed_tag tag && negb (is_user_tag tag) then Err E_stub else
  if len =? 0 then Ok head else
  if is_user_tag tag then Ok (head ++ [WBytes (Descriptor_UserDefined d)])
  else match Descriptor_Unknown d with
       | None => Panic
       | Some u => Ok (head ++ [WBytes (DescriptorUnknown_Content u)])
       end.

(* writeDescriptors *)
Fixpoint enc_descriptors (ds : list Descriptor) : res (list witem) :=
  match ds with
  | [] => Ok []
  | d :: r => res_bind (enc_descriptor d) (fun a => res_bind (enc_descriptors r) (fun b => Ok (a ++ b)))
  end.

(* writeDescriptorsWithLength *)
Definition enc_descriptors_with_length (ds : list Descriptor) : res (list witem) :=
  res_bind (enc_descriptors ds) (fun body =>
    Ok ([WBits 4 255; WBits 12 (calc_descriptors_length ds)] ++ body)).
