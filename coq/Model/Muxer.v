(* muxer.go: the Muxer as a state machine, control flow as in the source.

   One call of the public API is one [mop]; [mux_step] gives the state after the call and what the
   call returns / hands to its io.Writer when no Write fails.  The output is structured in GROUPS of
   io.Writer.Write calls (see [mout]); C18 injects a failing Write into that structure.

   Things that are deliberately NOT totalised away (each is exercised by the correspondence check):
   * WriteData and writePacket size the adaptation field with packetAdaptationFieldSize (int, Gen/Preds.v),
     the length byte written is calcPacketAdaptationFieldLength (uint8);
   * writePacket's second size test (after sync byte, header and adaptation field have been handed to
     the writer) is kept in Model/Packet.v; MuxerProofs.v shows it can no longer fire, so a failing
     writePacket emits nothing;
   * the continuity counter of a stream starts at wrapAt+1 = 16 and is truncated to 4 bits by the writer;
   * nextPID is a uint16 and wraps.

   WriteData mutates its argument (d.AdaptationField.StuffingLength is overwritten while the first
   packet is built and reset to 0 at the end; d.PES.Header.StreamID is filled in from the stream type
   when it is 0).  The harness hands a fresh MuxerData to every call, so the model does not return the
   updated value; [filled_header] is the header as the writer sees it.

   Non-termination: the loops of AddElementaryStream (every PID in use) and of WriteData (PES header
   longer than 184 bytes: stuffing-only packets for ever) are run on fuel that suffices in every
   other case; running out of fuel is reported as Panic and excluded by the harness generators. *)
From Coq Require Import ZArith List Lia Bool.
Require Import Base.Bits Base.Iter Base.Wr Gen.Consts Gen.Types Gen.Preds
  Model.Clock Model.Packet Model.Pes Model.Desc Model.Psi.
Import ListNotations.
Open Scope Z_scope.

(* ---------------- state ---------------- *)

(* esContext: the continuity counter and the stream the context points to *)
Record esctx := mk_esctx { ec_cc : wrappingCounter; ec_es : PMTElementaryStream }.

Record mstate := mk_mstate {
  ms_period : Z;                              (* tablesRetransmitPeriod *)
  ms_streams : list PMTElementaryStream;      (* pmt.ElementaryStreams, insertion order *)
  ms_pcr_pid : Z;                             (* pmt.PCRPID *)
  ms_pm_updated : bool;
  ms_pmt_updated : bool;
  ms_next_pid : Z;                            (* uint16 *)
  ms_pat_version : wrappingCounter;
  ms_pmt_version : wrappingCounter;
  ms_pat_cc : wrappingCounter;
  ms_pmt_cc : wrappingCounter;
  ms_es : list (Z * esctx);                   (* esContexts: at most one entry per PID, insertion order *)
  ms_retransmit : Z;                          (* tablesRetransmitCounter *)
  ms_removed : list (Z * wrappingCounter)     (* removedCCs: the counter a removed PID carries on with when it is added again *)
}.
(* patBytes / pmtBytes are rebuilt by every WriteTables before they are read and influence nothing else;
   pmt.ProgramDescriptors stays nil and pmt.ProgramNumber stays programNumberStart; the program map
   holds the single entry pmtStartPID -> programNumberStart for the whole life of the Muxer. *)

Definition version_wrap : Z := 31.            (* 0b11111 in NewMuxer *)
Definition cc_wrap : Z := 15.                 (* 0b1111 in NewMuxer / newEsContext *)
Definition default_period : Z := 40.

(* NewMuxer with MuxerOptTablesRetransmitPeriod(period) *)
Definition new_muxer (period : Z) : mstate :=
  {| ms_period := period;
     ms_streams := [];
     ms_pcr_pid := 0;
     ms_pm_updated := true;
     ms_pmt_updated := false;
     ms_next_pid := C_startPID;
     ms_pat_version := newWrappingCounter version_wrap;
     ms_pmt_version := newWrappingCounter version_wrap;
     ms_pat_cc := newWrappingCounter cc_wrap;
     ms_pmt_cc := newWrappingCounter cc_wrap;
     ms_es := [];
     ms_retransmit := period;
     ms_removed := [] |}.

(* field updates *)
Definition set_streams_es (s : mstate) (l : list PMTElementaryStream) (es : list (Z * esctx)) (np : Z)
    (rm : list (Z * wrappingCounter)) : mstate :=
  {| ms_period := ms_period s; ms_streams := l; ms_pcr_pid := ms_pcr_pid s; ms_pm_updated := ms_pm_updated s;
     ms_pmt_updated := true; ms_next_pid := np; ms_pat_version := ms_pat_version s;
     ms_pmt_version := ms_pmt_version s; ms_pat_cc := ms_pat_cc s; ms_pmt_cc := ms_pmt_cc s;
     ms_es := es; ms_retransmit := ms_retransmit s; ms_removed := rm |}.
Definition set_pcr (s : mstate) (pid : Z) : mstate :=
  {| ms_period := ms_period s; ms_streams := ms_streams s; ms_pcr_pid := pid; ms_pm_updated := ms_pm_updated s;
     ms_pmt_updated := true; ms_next_pid := ms_next_pid s; ms_pat_version := ms_pat_version s;
     ms_pmt_version := ms_pmt_version s; ms_pat_cc := ms_pat_cc s; ms_pmt_cc := ms_pmt_cc s;
     ms_es := ms_es s; ms_retransmit := ms_retransmit s; ms_removed := ms_removed s |}.
Definition set_retransmit (s : mstate) (c : Z) : mstate :=
  {| ms_period := ms_period s; ms_streams := ms_streams s; ms_pcr_pid := ms_pcr_pid s; ms_pm_updated := ms_pm_updated s;
     ms_pmt_updated := ms_pmt_updated s; ms_next_pid := ms_next_pid s; ms_pat_version := ms_pat_version s;
     ms_pmt_version := ms_pmt_version s; ms_pat_cc := ms_pat_cc s; ms_pmt_cc := ms_pmt_cc s;
     ms_es := ms_es s; ms_retransmit := c; ms_removed := ms_removed s |}.
Definition set_es (s : mstate) (es : list (Z * esctx)) : mstate :=
  {| ms_period := ms_period s; ms_streams := ms_streams s; ms_pcr_pid := ms_pcr_pid s; ms_pm_updated := ms_pm_updated s;
     ms_pmt_updated := ms_pmt_updated s; ms_next_pid := ms_next_pid s; ms_pat_version := ms_pat_version s;
     ms_pmt_version := ms_pmt_version s; ms_pat_cc := ms_pat_cc s; ms_pmt_cc := ms_pmt_cc s;
     ms_es := es; ms_retransmit := ms_retransmit s; ms_removed := ms_removed s |}.
(* the six fields WriteTables snapshots and restores *)
Definition set_tables (s : mstate) (patv pmtv patcc pmtcc : wrappingCounter) (pmu pmtu : bool) : mstate :=
  {| ms_period := ms_period s; ms_streams := ms_streams s; ms_pcr_pid := ms_pcr_pid s; ms_pm_updated := pmu;
     ms_pmt_updated := pmtu; ms_next_pid := ms_next_pid s; ms_pat_version := patv;
     ms_pmt_version := pmtv; ms_pat_cc := patcc; ms_pmt_cc := pmtcc;
     ms_es := ms_es s; ms_retransmit := ms_retransmit s; ms_removed := ms_removed s |}.

(* ---------------- operations and results ---------------- *)

Inductive mop : Type :=
| MAdd (es : PMTElementaryStream)
| MRemove (pid : Z)
| MSetPCR (pid : Z)
| MWriteTables
| MWriteData (d : MuxerData)
| MWritePacket (p : Packet).

(* mo_res:    Ok tt, Err code, or Panic;
   mo_n:      the int the call returns when no Write fails (0 for calls that return only an error);
   mo_groups: what the call hands to the io.Writer when no Write fails, as a list of groups; a group
              is the list of consecutive Write calls the call accounts for together (one TS packet
              written through the BitsWriter, or one table packet written from its buffer).
              A writePacket that fails has written nothing (see the header comment). *)
Record mout := mk_mout { mo_res : res unit; mo_n : Z; mo_groups : list (list (list Z)) }.

Definition mout_bytes (o : mout) : list Z := concat (concat (mo_groups o)).

Definition blen (bs : list Z) : Z := Z.of_nat (length bs).

(* ---------------- esContexts ---------------- *)

(* Go maps keyed by PID as association lists (used for esContexts and removedCCs) *)
Definition es_find {A} (pid : Z) (l : list (Z * A)) : option A :=
  option_map snd (find (fun p => fst p =? pid) l).
Definition es_mem {A} (pid : Z) (l : list (Z * A)) : bool := existsb (fun p => fst p =? pid) l.
Definition es_del {A} (pid : Z) (l : list (Z * A)) : list (Z * A) :=
  filter (fun p => negb (fst p =? pid)) l.
(* m[pid] = c *)
Definition es_put {A} (pid : Z) (c : A) (l : list (Z * A)) : list (Z * A) :=
  if es_mem pid l then map (fun p => if fst p =? pid then (pid, c) else p) l else l ++ [(pid, c)].

Definition stream_pid_in (pid : Z) (l : list PMTElementaryStream) : bool :=
  existsb (fun e => PMTElementaryStream_ElementaryPID e =? pid) l.

(* ---------------- AddElementaryStream / RemoveElementaryStream / SetPCRPID ---------------- *)

(* for ; ok || nextPID == pmtStartPID ; { nextPID++ } *)
Fixpoint next_free_pid (fuel : nat) (es : list (Z * esctx)) (n : Z) : option Z :=
  match fuel with
  | O => None
  | S k => if es_mem n es || (n =? C_pmtStartPID) then next_free_pid k es ((n + 1) mod 65536) else Some n
  end.

Definition with_pid (es : PMTElementaryStream) (pid : Z) : PMTElementaryStream :=
  {| PMTElementaryStream_ElementaryPID := pid;
     PMTElementaryStream_ElementaryStreamDescriptors := PMTElementaryStream_ElementaryStreamDescriptors es;
     PMTElementaryStream_StreamType := PMTElementaryStream_StreamType es |}.

Definition new_es_context (es : PMTElementaryStream) : esctx :=
  {| ec_cc := newWrappingCounter cc_wrap; ec_es := es |}.

(* ctx := newEsContext(&es); if cc, ok := m.removedCCs[pid]; ok { ctx.cc = cc; delete(m.removedCCs, pid) } *)
Definition readded_context (es : PMTElementaryStream) (pid : Z) (rm : list (Z * wrappingCounter)) : esctx :=
  match es_find pid rm with
  | Some cc => {| ec_cc := cc; ec_es := es |}
  | None => new_es_context es
  end.

Definition add_es (s : mstate) (es : PMTElementaryStream) : mstate * res unit :=
  let pid := PMTElementaryStream_ElementaryPID es in
  if negb (pid =? 0) then
    if stream_pid_in pid (ms_streams s) then (s, Err E_pid_exists)
    else (set_streams_es s (ms_streams s ++ [es]) (es_put pid (readded_context es pid (ms_removed s)) (ms_es s)) (ms_next_pid s)
            (es_del pid (ms_removed s)), Ok tt)
  else
    match next_free_pid (S (S (length (ms_es s)))) (ms_es s) (ms_next_pid s) with
    | None => (s, Panic)
    | Some p =>
        let es' := with_pid es p in
        (set_streams_es s (ms_streams s ++ [es']) (es_put p (readded_context es' p (ms_removed s)) (ms_es s)) ((p + 1) mod 65536)
           (es_del p (ms_removed s)), Ok tt)
    end.

(* the slice without its first element of the given PID *)
Fixpoint remove_first_pid (pid : Z) (l : list PMTElementaryStream) : list PMTElementaryStream :=
  match l with
  | [] => []
  | e :: r => if PMTElementaryStream_ElementaryPID e =? pid then r else e :: remove_first_pid pid r
  end.

Definition remove_es (s : mstate) (pid : Z) : mstate * res unit :=
  if stream_pid_in pid (ms_streams s)
  then (set_streams_es s (remove_first_pid pid (ms_streams s)) (es_del pid (ms_es s)) (ms_next_pid s)
          (match es_find pid (ms_es s) with
           | Some ctx => es_put pid (ec_cc ctx) (ms_removed s)     (* m.removedCCs[pid] = ctx.cc *)
           | None => ms_removed s
           end), Ok tt)
  else (s, Err E_pid_not_found).

(* ---------------- writePacket as the Muxer uses it ---------------- *)

(* one writePacket call on the Muxer's BitsWriter: result (n), the Write calls it made, the packet when it is complete *)
Record pkt_out := mk_pkt_out { po_res : res Z; po_group : list (list Z); po_pkt : list Packet }.

Definition emit_packet (p : Packet) : pkt_out :=
  match enc_packet p C_MpegTsPacketSize with
  | Ok items => {| po_res := Ok C_MpegTsPacketSize; po_group := chunks_of items; po_pkt := [p] |}
  | Err c => {| po_res := Err c; po_group := []; po_pkt := [] |}
  | Panic => {| po_res := Panic; po_group := []; po_pkt := [] |}
  end.

(* ---------------- tables ---------------- *)

Definition mk_header (pid cc : Z) (af pl pusi : bool) : PacketHeader :=
  {| PacketHeader_ContinuityCounter := cc mod 256;
     PacketHeader_HasAdaptationField := af;
     PacketHeader_HasPayload := pl;
     PacketHeader_PayloadUnitStartIndicator := pusi;
     PacketHeader_PID := pid;
     PacketHeader_TransportErrorIndicator := false;
     PacketHeader_TransportPriority := false;
     PacketHeader_TransportScramblingControl := 0 |}.

(* versionNumber := v.get(); if updated { versionNumber = v.inc() } *)
Definition next_version (v : wrappingCounter) (updated : bool) : wrappingCounter * Z :=
  if updated then (wrappingCounter_inc_st v, wrappingCounter_inc v) else (v, wrappingCounter_get v).

Definition table_section (tid sectionLength ext version : Z) (data : PSISectionSyntaxData) : PSISection :=
  {| PSISection_CRC32 := 0;
     PSISection_Header := Some {| PSISectionHeader_PrivateBit := false;
                                  PSISectionHeader_SectionLength := sectionLength;
                                  PSISectionHeader_SectionSyntaxIndicator := true;
                                  PSISectionHeader_TableID := tid;
                                  PSISectionHeader_TableType := [] |};
     PSISection_Syntax := Some {| PSISectionSyntax_Data := Some data;
                                  PSISectionSyntax_Header :=
                                    Some {| PSISectionSyntaxHeader_CurrentNextIndicator := true;
                                            PSISectionSyntaxHeader_LastSectionNumber := 0;
                                            PSISectionSyntaxHeader_SectionNumber := 0;
                                            PSISectionSyntaxHeader_TableIDExtension := ext;
                                            PSISectionSyntaxHeader_VersionNumber := version mod 256 |} |} |}.

Definition psi_of_section (sec : PSISection) : PSIData :=
  {| PSIData_PointerField := 0; PSIData_Sections := [sec] |}.

(* programMap.toPATDataUnlocked for the Muxer's map *)
Definition pat_data : PATData :=
  {| PATData_Programs := [{| PATProgram_ProgramMapID := C_pmtStartPID; PATProgram_ProgramNumber := C_programNumberStart |}];
     PATData_TransportStreamID := C_PSITableIDPAT |}.

Definition pat_section (version : Z) : PSISection :=
  table_section (PATData_TransportStreamID pat_data) (calcPATSectionLength pat_data)
    (PATData_TransportStreamID pat_data) version
    {| PSISectionSyntaxData_EIT := None; PSISectionSyntaxData_NIT := None; PSISectionSyntaxData_PAT := Some pat_data;
       PSISectionSyntaxData_PMT := None; PSISectionSyntaxData_SDT := None; PSISectionSyntaxData_TOT := None |}.

(* m.pmt as generatePMT sees it *)
Definition pmt_data_of (streams : list PMTElementaryStream) (pcr : Z) : PMTData :=
  {| PMTData_ElementaryStreams := streams;
     PMTData_PCRPID := pcr;
     PMTData_ProgramDescriptors := [];
     PMTData_ProgramNumber := C_programNumberStart |}.

Definition pmt_section_of (streams : list PMTElementaryStream) (pcr version : Z) : PSISection :=
  let d := pmt_data_of streams pcr in
  table_section C_PSITableIDPMT (calc_pmt_section_length d) (PMTData_ProgramNumber d) version
    {| PSISectionSyntaxData_EIT := None; PSISectionSyntaxData_NIT := None; PSISectionSyntaxData_PAT := None;
       PSISectionSyntaxData_PMT := Some d; PSISectionSyntaxData_SDT := None; PSISectionSyntaxData_TOT := None |}.

Definition pmt_section (s : mstate) (version : Z) : PSISection :=
  pmt_section_of (ms_streams s) (ms_pcr_pid s) version.

Definition table_packet (pid cc : Z) (payload : list Z) : Packet :=
  {| Packet_AdaptationField := None; Packet_Header := mk_header pid cc false true true; Packet_Payload := payload |}.

(* generatePAT: the state as the function leaves it (also on failure), and the packet with its bytes *)
Definition generate_pat (s : mstate) : mstate * res (Packet * list Z) :=
  let '(patv, version) := next_version (ms_pat_version s) (ms_pm_updated s) in
  let s1 := set_tables s patv (ms_pmt_version s) (ms_pat_cc s) (ms_pmt_cc s) (ms_pm_updated s) (ms_pmt_updated s) in
  match write_psi_data (psi_of_section (pat_section version)) with
  | Err c => (s1, Err c)
  | Panic => (s1, Panic)
  | Ok payload =>
      let s2 := set_tables s1 patv (ms_pmt_version s) (wrappingCounter_inc_st (ms_pat_cc s)) (ms_pmt_cc s)
                  (ms_pm_updated s) (ms_pmt_updated s) in
      let pkt := table_packet C_PIDPAT (wrappingCounter_inc (ms_pat_cc s)) payload in
      match write_packet pkt C_MpegTsPacketSize with
      | Err c => (s2, Err c)
      | Panic => (s2, Panic)
      | Ok bs => (set_tables s2 patv (ms_pmt_version s) (ms_pat_cc s2) (ms_pmt_cc s) false (ms_pmt_updated s), Ok (pkt, bs))
      end
  end.

(* the int size generatePMT computes before it builds the section (program descriptors: none) *)
Definition pmt_size (streams : list PMTElementaryStream) : Z :=
  fold_left (fun n es => fold_left (fun k d => k + (2 + calc_descriptor_length d))
                                   (PMTElementaryStream_ElementaryStreamDescriptors es) (n + 5))
            streams 4.

(* generatePMT *)
Definition generate_pmt (s : mstate) : mstate * res (Packet * list Z) :=
  if negb (stream_pid_in (ms_pcr_pid s) (ms_streams s)) then (s, Err E_pcr_pid) else
  if pmt_size (ms_streams s) >? 1021 - 9 then (s, Err E_generic) else
  let '(pmtv, version) := next_version (ms_pmt_version s) (ms_pmt_updated s) in
  let s1 := set_tables s (ms_pat_version s) pmtv (ms_pat_cc s) (ms_pmt_cc s) (ms_pm_updated s) (ms_pmt_updated s) in
  match write_psi_data (psi_of_section (pmt_section s version)) with
  | Err c => (s1, Err c)
  | Panic => (s1, Panic)
  | Ok payload =>
      let s2 := set_tables s1 (ms_pat_version s) pmtv (ms_pat_cc s) (wrappingCounter_inc_st (ms_pmt_cc s))
                  (ms_pm_updated s) (ms_pmt_updated s) in
      let pkt := table_packet C_pmtStartPID (wrappingCounter_inc (ms_pmt_cc s)) payload in
      match write_packet pkt C_MpegTsPacketSize with
      | Err c => (s2, Err c)
      | Panic => (s2, Panic)
      | Ok bs => (set_tables s2 (ms_pat_version s) pmtv (ms_pat_cc s) (ms_pmt_cc s2) (ms_pm_updated s) false, Ok (pkt, bs))
      end
  end.

(* what a sub-step of a call contributes: result, n, groups, complete packets *)
Record part := mk_part { pa_res : res unit; pa_n : Z; pa_groups : list (list (list Z)); pa_pkts : list Packet }.

Definition restore_tables (s0 s : mstate) : mstate :=
  set_tables s (ms_pat_version s0) (ms_pmt_version s0) (ms_pat_cc s0) (ms_pmt_cc s0) (ms_pm_updated s0) (ms_pmt_updated s0).

(* WriteTables: both tables are generated before anything is written; the six counters and flags are
   restored when a table cannot be generated (not when it panics: restore is not deferred) *)
Definition write_tables (s : mstate) : mstate * part :=
  match generate_pat s with
  | (s1, Err c) => (restore_tables s s1, mk_part (Err c) 0 [] [])
  | (s1, Panic) => (s1, mk_part Panic 0 [] [])
  | (s1, Ok (ppat, bpat)) =>
      match generate_pmt s1 with
      | (s2, Err c) => (restore_tables s s2, mk_part (Err c) 0 [] [])
      | (s2, Panic) => (s2, mk_part Panic 0 [] [])
      | (s2, Ok (ppmt, bpmt)) =>
          (s2, mk_part (Ok tt) (blen bpat + blen bpmt) [[bpat]; [bpmt]] [ppat; ppmt])
      end
  end.

(* retransmitTables *)
Definition retransmit_tables (s : mstate) (force : bool) : mstate * part :=
  let s1 := set_retransmit s (ms_retransmit s + 1) in
  if negb force && (ms_retransmit s1 <? ms_period s1) then (s1, mk_part (Ok tt) 0 [] []) else
  match write_tables s1 with
  | (s2, mk_part (Ok _) n g p) => (set_retransmit s2 0, mk_part (Ok tt) n g p)
  | r => r
  end.

(* ---------------- WriteData ---------------- *)

Definition is_in (x : Z) (l : list Z) : bool := existsb (Z.eqb x) l.

(* StreamType.ToPESStreamID *)
Definition to_pes_stream_id (t : Z) : Z :=
  if is_in t [C_StreamTypeMPEG1Video; C_StreamTypeMPEG2Video; C_StreamTypeMPEG4Video; C_StreamTypeH264Video;
              C_StreamTypeH265Video; C_StreamTypeCAVSVideo; C_StreamTypeVC1Video] then 224
  else if t =? C_StreamTypeDIRACVideo then 253
  else if is_in t [C_StreamTypeMPEG2Audio; C_StreamTypeAACAudio; C_StreamTypeAACLATMAudio] then 192
  else if is_in t [C_StreamTypeAC3Audio; C_StreamTypeEAC3Audio] then 253
  else if is_in t [C_StreamTypePrivateSection; C_StreamTypePrivateData; C_StreamTypeMetadata] then 252
  else 189.

(* d.PES.Header after `if StreamID == 0 { StreamID = ctx.es.StreamType.ToPESStreamID() }` *)
Definition filled_header (h : PESHeader) (es : PMTElementaryStream) : PESHeader :=
  if PESHeader_StreamID h =? 0 then
    {| PESHeader_OptionalHeader := PESHeader_OptionalHeader h;
       PESHeader_PacketLength := PESHeader_PacketLength h;
       PESHeader_StreamID := to_pes_stream_id (PMTElementaryStream_StreamType es) |}
  else h.

Definition with_stuffing (af : PacketAdaptationField) (n : Z) : PacketAdaptationField :=
  {| PacketAdaptationField_AdaptationExtensionField := PacketAdaptationField_AdaptationExtensionField af;
     PacketAdaptationField_OPCR := PacketAdaptationField_OPCR af;
     PacketAdaptationField_PCR := PacketAdaptationField_PCR af;
     PacketAdaptationField_TransportPrivateData := PacketAdaptationField_TransportPrivateData af;
     PacketAdaptationField_TransportPrivateDataLength := PacketAdaptationField_TransportPrivateDataLength af;
     PacketAdaptationField_Length := PacketAdaptationField_Length af;
     PacketAdaptationField_StuffingLength := n;
     PacketAdaptationField_SpliceCountdown := PacketAdaptationField_SpliceCountdown af;
     PacketAdaptationField_IsOneByteStuffing := PacketAdaptationField_IsOneByteStuffing af;
     PacketAdaptationField_RandomAccessIndicator := PacketAdaptationField_RandomAccessIndicator af;
     PacketAdaptationField_DiscontinuityIndicator := PacketAdaptationField_DiscontinuityIndicator af;
     PacketAdaptationField_ElementaryStreamPriorityIndicator := PacketAdaptationField_ElementaryStreamPriorityIndicator af;
     PacketAdaptationField_HasAdaptationExtensionField := PacketAdaptationField_HasAdaptationExtensionField af;
     PacketAdaptationField_HasOPCR := PacketAdaptationField_HasOPCR af;
     PacketAdaptationField_HasPCR := PacketAdaptationField_HasPCR af;
     PacketAdaptationField_HasTransportPrivateData := PacketAdaptationField_HasTransportPrivateData af;
     PacketAdaptationField_HasSplicingCountdown := PacketAdaptationField_HasSplicingCountdown af |}.

(* if pkt.AdaptationField == nil { newStuffingAdaptationField(n) } else { pkt.AdaptationField.StuffingLength = n } *)
Definition stuffed (af : option PacketAdaptationField) (n : Z) : PacketAdaptationField :=
  match af with None => newStuffingAdaptationField n | Some a => with_stuffing a n end.

(* result of the packetisation loop: the stream's counter afterwards and what was emitted *)
Record loop_out := mk_loop_out { lo_cc : wrappingCounter; lo_part : part }.

Definition lo_cons (n : Z) (g : list (list Z)) (p : list Packet) (r : loop_out) : loop_out :=
  mk_loop_out (lo_cc r) (mk_part (pa_res (lo_part r)) (n + pa_n (lo_part r)) (g :: pa_groups (lo_part r)) (p ++ pa_pkts (lo_part r))).

Definition lo_stop (cc : wrappingCounter) (r : res unit) : loop_out :=
  mk_loop_out cc (mk_part r 0 [] []).

(* for payloadBytesWritten < len(d.PES.Data) { ... }: [left] is d.PES.Data[payloadBytesWritten:],
   [af] is Some d.AdaptationField while writeAf is still set, [oh] the optional header of d.PES.Header,
   [h] the header with its stream id filled in *)
Fixpoint wd_loop (fuel : nat) (pid : Z) (h : PESHeader) (cc : wrappingCounter)
    (af : option PacketAdaptationField) (payloadStart : bool) (left : list Z) : loop_out :=
  match left with
  | [] => lo_stop cc (Ok tt)
  | _ :: _ =>
    match fuel with
    | O => lo_stop cc Panic
    | S k =>
      let pktLen := 1 + C_mpegTsPacketHeaderSize +
                    match af with Some a => packetAdaptationFieldSize a | None => 0 end in
      let bytesAvailable := C_MpegTsPacketSize - pktLen in
      let hasAf := match af with Some _ => true | None => false end in
      if payloadStart && (bytesAvailable <? C_pesHeaderLength + calcPESOptionalHeaderLength (PESHeader_OptionalHeader h)) then
        (* adaptation field only: the continuity counter is not incremented *)
        let pkt := {| Packet_AdaptationField := Some (stuffed af bytesAvailable);
                      Packet_Header := mk_header pid (wrappingCounter_get cc) true false false;
                      Packet_Payload := [] |} in
        let o := emit_packet pkt in
        match po_res o with
        | Ok n => lo_cons n (po_group o) (po_pkt o) (wd_loop k pid h cc None payloadStart left)
        | Err c => lo_stop cc (Err c)
        | Panic => lo_stop cc Panic
        end
      else
        let cc' := wrappingCounter_inc_st cc in
        match write_pes_data h left payloadStart bytesAvailable with
        | Err c => lo_stop cc' (Err c)
        | Panic => lo_stop cc' Panic
        | Ok (items, ntot, npayload) =>
            let rest := bytesAvailable - ntot in
            let pkt := {| Packet_AdaptationField := if rest >? 0 then Some (stuffed af rest) else af;
                          Packet_Header := mk_header pid (wrappingCounter_inc cc) (hasAf || (rest >? 0)) true payloadStart;
                          Packet_Payload := bytes_of_items items |} in
            let o := emit_packet pkt in
            match po_res o with
            | Ok n => lo_cons n (po_group o) (po_pkt o)
                        (wd_loop k pid h cc' None false (skipn (Z.to_nat npayload) left))
            | Err c => lo_stop cc' (Err c)
            | Panic => lo_stop cc' Panic
            end
        end
    end
  end.

Definition part_app (a b : part) : part :=
  mk_part (pa_res b) (pa_n a + pa_n b) (pa_groups a ++ pa_groups b) (pa_pkts a ++ pa_pkts b).

Definition af_rai (af : option PacketAdaptationField) : bool :=
  match af with Some a => PacketAdaptationField_RandomAccessIndicator a | None => false end.

Definition write_data (s : mstate) (d : MuxerData) : mstate * part :=
  let pid := MuxerData_PID d in
  match es_find pid (ms_es s) with
  | None => (s, mk_part (Err E_pid_not_found) 0 [] [])
  | Some ctx =>
      let force := af_rai (MuxerData_AdaptationField d) && (pid =? ms_pcr_pid s) in
      match retransmit_tables s force with
      | (s1, mk_part (Ok _) n g p) =>
          let tables := mk_part (Ok tt) n g p in
          match MuxerData_PES d with
          | None => (s1, part_app tables (mk_part Panic 0 [] []))            (* len(d.PES.Data) *)
          | Some pes =>
              match PESData_Data pes, PESData_Header pes with
              | [], _ => (s1, tables)
              | _ :: _, None => (s1, part_app tables (mk_part Panic 0 [] []))  (* d.PES.Header.OptionalHeader *)
              | data, Some h0 =>
                  let h := filled_header h0 (ec_es ctx) in
                  let r := wd_loop (length data + 3) pid h (ec_cc ctx) (MuxerData_AdaptationField d) true data in
                  (set_es s1 (es_put pid (mk_esctx (lo_cc r) (ec_es ctx)) (ms_es s1)), part_app tables (lo_part r))
              end
          end
      | r => r
      end
  end.

(* ---------------- one call ---------------- *)

Definition part_of_res (r : res unit) : part := mk_part r 0 [] [].

Definition write_packet_op (p : Packet) : part :=
  let o := emit_packet p in
  match po_res o with
  | Ok n => mk_part (Ok tt) n [po_group o] (po_pkt o)
  | Err c => mk_part (Err c) 0 [] []
  | Panic => mk_part Panic 0 [] []
  end.

(* state after the call, its result, and (ghost) the packets it emitted completely, in order *)
Definition mux_step_part (s : mstate) (o : mop) : mstate * part :=
  match o with
  | MAdd es => let '(s', r) := add_es s es in (s', part_of_res r)
  | MRemove pid => let '(s', r) := remove_es s pid in (s', part_of_res r)
  | MSetPCR pid => (set_pcr s pid, part_of_res (Ok tt))
  | MWriteTables => write_tables s
  | MWriteData d => write_data s d
  | MWritePacket p => (s, write_packet_op p)
  end.

Definition mout_of_part (p : part) : mout :=
  {| mo_res := pa_res p; mo_n := pa_n p; mo_groups := pa_groups p |}.

Definition mux_step (s : mstate) (o : mop) : mstate * mout :=
  let '(s', p) := mux_step_part s o in (s', mout_of_part p).

Fixpoint mux_run (s : mstate) (ops : list mop) : mstate * list mout :=
  match ops with
  | [] => (s, [])
  | o :: r => let '(s1, out) := mux_step s o in
              let '(s2, outs) := mux_run s1 r in (s2, out :: outs)
  end.

(* the same run with the ghost packet lists *)
Fixpoint mux_run_parts (s : mstate) (ops : list mop) : mstate * list part :=
  match ops with
  | [] => (s, [])
  | o :: r => let '(s1, p) := mux_step_part s o in
              let '(s2, ps) := mux_run_parts s1 r in (s2, p :: ps)
  end.
