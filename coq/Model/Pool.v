(* packet_pool.go and the PSI-completeness test of data.go.
   hasDiscontinuity / isSameAsPrevious / shouldStopPSIParsing are the translated functions of Gen/Preds.v. *)
From Coq Require Import ZArith List Lia Bool.
Require Import Base.Bits Base.Iter Gen.Consts Gen.Types Gen.Preds.
Import ListNotations.
Open Scope Z_scope.

Definition queue := list Packet.
Definition pid_of (p : Packet) : Z := PacketHeader_PID (Packet_Header p).
Definition pusi (p : Packet) : bool := PacketHeader_PayloadUnitStartIndicator (Packet_Header p).
Definition has_payload (p : Packet) : bool := PacketHeader_HasPayload (Packet_Header p).
Definition tei (p : Packet) : bool := PacketHeader_TransportErrorIndicator (Packet_Header p).
Definition cc_of (p : Packet) : Z := PacketHeader_ContinuityCounter (Packet_Header p).

Definition concat_payload (ps : list Packet) : list Z := flat_map Packet_Payload ps.

(* isPSIComplete: walk the section headers of the concatenated payload.
   Some i' = the loop ended normally with iterator i'; None = a read failed (the Go code returns false). *)
Fixpoint psi_walk (fuel : nat) (i : iter) : res (option iter) :=
  match fuel with
  | O => Ok None
  | S k =>
      if negb (ioff i <? ilen i) then Ok (Some i) else
      match next_byte i with
      | Panic => Panic
      | Err _ => Ok None
      | Ok (b, i1) =>
          if shouldStopPSIParsing b then Ok (Some i1) else
          match next_bytes_nocopy 2 i1 with
          | Panic => Panic
          | Err _ => Ok None
          | Ok (bs, i2) => psi_walk k (mk_iter (ibs i2) (ioff i2 + Z.land (be16 bs) 4095))
          end
      end
  end.

Definition is_psi_complete_bytes (payload : list Z) : res bool :=
  match next_byte (new_iter payload) with
  | Panic => Panic
  | Err _ => Ok false
  | Ok (b, i1) =>
      match psi_walk (S (length payload)) (mk_iter (ibs i1) (ioff i1 + b)) with
      | Panic => Panic
      | Err c => Err c
      | Ok None => Ok false
      | Ok (Some i') => Ok (ioff i' <=? ilen i')
      end
  end.

(* the boolean the accumulator uses; Proofs/PoolProofs.v shows the res version is always Ok *)
Definition is_psi_complete (ps : list Packet) : bool :=
  match is_psi_complete_bytes (concat_payload ps) with Ok b => b | _ => false end.

(* the program map as the list of registered PMT PIDs *)
Definition pmap := list Z.
Definition pm_mem (pm : pmap) (pid : Z) : bool := existsb (Z.eqb pid) pm.
Definition pm_add (pm : pmap) (pid : Z) : pmap := if pm_mem pm pid then pm else pm ++ [pid].

(* the buffer is emptied on a discontinuity, except when the discontinuity is only signalled (the counter is
   continuous) on a packet that starts a new payload: the previous payload is then whole and gets flushed *)
Definition resets (q : queue) (p : Packet) : bool :=
  hasDiscontinuity q p && (negb (pusi p) || hasCounterDiscontinuity q p).

(* packetAccumulator.add: new queue, flushed packets ([] = nothing flushed) *)
Definition acc_add (pm : pmap) (pid : Z) (q : queue) (p : Packet) : queue * list Packet :=
  if isSameAsPrevious q p then (q, []) else
  let q1 := if resets q p then [] else q in
  let '(ps, q2) := if pusi p then (q1, []) else ([], q1) in
  let q3 := q2 ++ [p] in
  if (Z.eqb pid C_PIDPAT || pm_mem pm pid) && is_psi_complete q3 then ([], q3) else (q3, ps).

(* the pool: one accumulator per PID, kept sorted by PID (dumpUnlocked visits PIDs in increasing order) *)
Definition pool := list (Z * queue).

Fixpoint pool_lookup (pl : pool) (pid : Z) : option queue :=
  match pl with
  | [] => None
  | (k, q) :: r => if k =? pid then Some q else pool_lookup r pid
  end.

Fixpoint pool_set (pl : pool) (pid : Z) (q : queue) : pool :=
  match pl with
  | [] => [(pid, q)]
  | (k, q0) :: r =>
      if k =? pid then (k, q) :: r
      else if pid <? k then (pid, q) :: (k, q0) :: r
      else (k, q0) :: pool_set r pid q
  end.

(* packetPool.addUnlocked *)
Definition pool_add (pm : pmap) (pl : pool) (p : Packet) : pool * list Packet :=
  if tei p then (pl, []) else
  if negb (has_payload p) then (pl, []) else
  let q := match pool_lookup pl (pid_of p) with Some q => q | None => [] end in
  let '(q', ps) := acc_add pm (pid_of p) q p in
  (pool_set pl (pid_of p) q', ps).

(* packetPool.dumpUnlocked: entries are removed in increasing PID order up to and including the first non-empty one *)
Fixpoint pool_dump (pl : pool) : pool * list Packet :=
  match pl with
  | [] => ([], [])
  | (_, q) :: r => match q with [] => pool_dump r | _ => (r, q) end
  end.
