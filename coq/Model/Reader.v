(* io.Reader as the demuxer sees it, packet_buffer.go (packet size auto-detection, fixed-size reads).
   A reader hands out the bytes of [r_data] in order; [r_fault] = Some k makes every Read fail with the
   injected error once k bytes have been handed out (checked before end of file, as the harness reader does).
   How a Read call fragments the bytes is abstracted here: read_full is the closed form of io.ReadFull;
   Proofs/ReaderProofs.v shows that the chunk-by-chunk loop computes exactly this, for every chunk schedule. *)
From Coq Require Import ZArith List Lia Bool.
Require Import Base.Bits Base.Iter Gen.Consts Gen.Types Gen.Preds Model.Packet.
Import ListNotations.
Open Scope Z_scope.

Inductive rkind := Plain | Seekable | Bufio.

Record reader := mk_reader {
  r_all : list Z;          (* the whole stream (what Seek(0, 0) goes back to) *)
  r_rest : list Z;         (* the bytes not handed out yet: skipn r_pos r_all *)
  r_pos : Z;
  r_total : Z;             (* length of r_all *)
  r_fault : option Z;
  r_kind : rkind
}.

Definition new_reader (data : list Z) (fault : option Z) (k : rkind) : reader :=
  mk_reader data data 0 (Z.of_nat (length data)) fault k.

Definition r_len (r : reader) : Z := r_total r.
(* offset at which Read stops handing out bytes, and whether it stops with the injected error (else EOF) *)
Definition r_stop (r : reader) : Z * bool :=
  match r_fault r with
  | Some f => if f <=? r_len r then (f, true) else (r_len r, false)
  | None => (r_len r, false)
  end.
(* consume n bytes (0 <= n <= bytes left) *)
Definition r_advance (r : reader) (n : Z) : reader :=
  mk_reader (r_all r) (skipn (Z.to_nat n) (r_rest r)) (r_pos r + n) (r_total r) (r_fault r) (r_kind r).
Definition r_seek0 (r : reader) : reader :=
  mk_reader (r_all r) (r_all r) 0 (r_total r) (r_fault r) (r_kind r).

Inductive rerr := RInjected | REOF | RUnexpectedEOF.

(* io.ReadFull(r, buf) with len(buf) = n >= 0: the bytes obtained (all n, or the partial prefix on error) *)
Definition read_full (r : reader) (n : Z) : (list Z * option rerr) * reader :=
  let '(stop, inj) := r_stop r in
  let avail := Z.max 0 (stop - r_pos r) in
  if n <=? avail then ((firstn (Z.to_nat n) (r_rest r), None), r_advance r n)
  else ((firstn (Z.to_nat avail) (r_rest r),
         Some (if inj then RInjected else if avail =? 0 then REOF else RUnexpectedEOF)),
        r_advance r avail).

(* ---- the chunk-by-chunk loop io.ReadFull actually runs (used only in Proofs/ReaderProofs.v and RunC08) ---- *)
(* one Read(p) with len(p) = want > 0 under a chunk size c >= 1 *)
Definition read_once (r : reader) (want c : Z) : (Z * option rerr) * reader :=
  let '(stop, inj) := r_stop r in
  if stop <=? r_pos r then ((0, Some (if inj then RInjected else REOF)), r)
  else let n := Z.min (Z.min want c) (stop - r_pos r) in ((n, None), r_advance r n).

Fixpoint read_full_loop (chunks : list Z) (r : reader) (n got : Z) : (Z * option rerr) * reader :=
  if n <=? got then ((got, None), r) else
  match chunks with
  | [] => ((got, Some REOF), r)   (* schedule exhausted: excluded by the theorems (enough chunks) *)
  | c :: cs =>
      match read_once r (n - got) (Z.max 1 c) with
      | ((k, None), r') => read_full_loop cs r' n (got + k)
      | ((_, Some e), r') => ((got, Some (match e with REOF => if got =? 0 then REOF else RUnexpectedEOF | _ => e end)), r')
      end
  end.

(* ---- packet buffer ---- *)

Record pbuf := mk_pbuf { pb_size : Z }.

Definition pad_to (bs : list Z) (n : Z) : list Z := bs ++ repeat 0 (Z.to_nat (n - Z.of_nat (length bs))).

(* index of the first sync byte at position >= 188 within the window *)
Fixpoint find_sync (bs : list Z) (idx : Z) : option Z :=
  match bs with
  | [] => None
  | b :: r => if (b =? syncByte) && (C_MpegTsPacketSize <=? idx) then Some idx else find_sync r (idx + 1)
  end.

Definition detect_window : Z := 193.

(* autoDetectPacketSize *)
Definition auto_detect (r : reader) : res Z * reader :=
  match r_kind r with
  | Bufio =>
      (* Peek(193): nothing is consumed *)
      let '((bs, e), _) := read_full r detect_window in
      let fail := match e with
                  | Some RInjected => Some E_injected
                  | Some REOF => Some E_nomore
                  | _ => None end in
      match fail with
      | Some c => (Err c, r)
      | None =>
          let b := pad_to bs detect_window in
          let discard := snd (read_full r detect_window) in   (* Discard(193) on failure *)
          if negb (nth 0 b 0 =? syncByte) then (Err E_sync, discard) else
          match find_sync b 0 with
          | Some ps => (Ok ps, r)
          | None => (Err E_generic, discard)
          end
      end
  | k =>
      let '((bs, e), r1) := read_full r detect_window in
      let fail := match e with
                  | Some RInjected => Some E_injected
                  | Some REOF => Some E_nomore
                  | _ => None end in
      match fail with
      | Some c => (Err c, r1)
      | None =>
          let b := pad_to bs detect_window in
          if negb (nth 0 b 0 =? syncByte) then (Err E_sync, r1) else
          match find_sync b 0 with
          | Some ps =>
              match k with
              | Seekable => (Ok ps, r_seek0 r1)
              | _ =>
                  let '((_, e2), r2) := read_full r1 (ps - (detect_window - ps)) in
                  match e2 with
                  | None => (Ok ps, r2)
                  | Some RInjected => (Err E_injected, r2)
                  | Some _ => (Err E_generic, r2)
                  end
              end
          | None => (Err E_generic, r1)
          end
      end
  end.

(* newPacketBuffer *)
Definition new_packet_buffer (r : reader) (opt_size : Z) : res pbuf * reader :=
  if opt_size =? 0 then
    match auto_detect r with
    | (Ok ps, r') => (Ok (mk_pbuf ps), r')
    | (Err c, r') => (Err c, r')
    | (Panic, r') => (Panic, r')
    end
  else (Ok (mk_pbuf opt_size), r).

(* packetBuffer.next: read packets until one is not skipped.  Third component: the packets handed to the
   skipper by this call, in order (header and adaptation field parsed, Payload = nil).
   make([]byte, packetSize) panics for a negative size; fuel = an upper bound on the packets left *)
Definition consulted (bs : list Z) : list Packet :=
  match run_iter parse_packet_head bs with Ok (p0, _) => [p0] | _ => [] end.

Fixpoint pb_next (fuel : nat) (skip : Packet -> bool) (size : Z) (r : reader) : res Packet * reader * list Packet :=
  match fuel with
  | O => (Err E_nomore, r, [])
  | S k =>
      match read_full r size with
      | ((bs, None), r') =>
          match run_iter (parse_packet skip) bs with
          | Ok p => (Ok p, r', consulted bs)
          | Err c => if c =? E_skipped
                     then let '(x, r'', l) := pb_next k skip size r' in (x, r'', consulted bs ++ l)
                     else (Err c, r', consulted bs)
          | Panic => (Panic, r', [])
          end
      | ((_, Some RInjected), r') => (Err E_injected, r', [])
      | ((_, Some _), r') => (Err E_nomore, r', [])
      end
  end.

Definition packets_left (r : reader) (size : Z) : nat :=
  S (Z.to_nat ((r_len r - r_pos r) / Z.max 1 size)).

Definition packet_buffer_next (skip : Packet -> bool) (pb : pbuf) (r : reader) : res Packet * reader * list Packet :=
  if pb_size pb <? 0 then (Panic, r, []) else
  if pb_size pb =? 0 then (Err E_generic, r, [])   (* not reachable through the Demuxer: see new_packet_buffer *)
  else pb_next (packets_left r (pb_size pb)) skip (pb_size pb) r.

(* rewind(r) *)
Definition rewind_reader (r : reader) : Z * reader :=
  match r_kind r with
  | Seekable => (0, r_seek0 r)
  | _ => (-1, r)
  end.
