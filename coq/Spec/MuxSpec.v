(* Vocabulary of the Muxer properties C04, C05 and C17, stated over what a run of the model emits:
   the packets (ghost: the Packet records that are serialised), the bytes, the results.
   Nothing here refers to how Model/Muxer.v computes them. *)
From Coq Require Import ZArith List Lia Bool.
Require Import Base.Bits Base.Iter Base.Wr Gen.Consts Gen.Types Gen.Preds Model.Packet Model.Psi Model.Muxer.
Import ListNotations.
Open Scope Z_scope.

(* ---------------- packets ---------------- *)

Definition pkt_pid (p : Packet) : Z := PacketHeader_PID (Packet_Header p).
Definition pkt_has_payload (p : Packet) : bool := PacketHeader_HasPayload (Packet_Header p).
(* the continuity_counter field as it is written: 4 bits *)
Definition pkt_cc (p : Packet) : Z := PacketHeader_ContinuityCounter (Packet_Header p) mod 16.

(* the counters of the payload-carrying packets of a PID, in emission order *)
Definition payload_ccs (pid : Z) (pkts : list Packet) : list Z :=
  map pkt_cc (filter (fun p => pkt_has_payload p && (pkt_pid p =? pid)) pkts).

(* consecutive values step by one modulo 16 *)
Fixpoint chain16 (l : list Z) : Prop :=
  match l with
  | a :: ((b :: _) as r) => b = (a + 1) mod 16 /\ chain16 r
  | _ => True
  end.

(* the packets the Muxer itself produced in a call: a packet handed to WritePacket is the caller's *)
Definition muxer_pkts (o : mop) (p : part) : list Packet :=
  match o with MWritePacket _ => [] | _ => pa_pkts p end.

Definition is_ok (r : res unit) : bool := match r with Ok _ => true | _ => false end.

Definition removes (pid : Z) (o : mop) (p : part) : bool :=
  match o with MRemove q => (q =? pid) && is_ok (pa_res p) | _ => false end.

(* ---------------- the domain the properties quantify over ---------------- *)

(* S1: the writer-internal members of the caller's adaptation field are at their zero value on entry *)
Definition af_entry_ok (af : option PacketAdaptationField) : Prop :=
  match af with
  | None => True
  | Some a => PacketAdaptationField_StuffingLength a = 0 /\ PacketAdaptationField_IsOneByteStuffing a = false
  end.

Definition op_entry_ok (o : mop) : Prop :=
  match o with MWriteData d => af_entry_ok (MuxerData_AdaptationField d) | _ => True end.

Definition no_panic (ps : list part) : Prop := Forall (fun p => pa_res p <> Panic) ps.

(* ---------------- counters ---------------- *)

Definition es_cc (pid : Z) (s : mstate) : option wrappingCounter := option_map ec_cc (es_find pid (ms_es s)).

(* ---------------- tables (C17) ---------------- *)

Definition is_pat (p : Packet) : bool := pkt_pid p =? C_PIDPAT.
Definition is_pmt (p : Packet) : bool := pkt_pid p =? C_pmtStartPID.

(* a call emitted the tables when its packets start with a PAT packet followed by a PMT packet *)
Definition starts_with_tables (pkts : list Packet) : bool :=
  match pkts with a :: b :: _ => is_pat a && is_pmt b | _ => false end.

Definition data_forced (s : mstate) (d : MuxerData) : bool :=
  af_rai (MuxerData_AdaptationField d) && (MuxerData_PID d =? ms_pcr_pid s).

(* the 5-bit version_number of the section a table packet carries: byte 6 of the payload
   (pointer_field, table_id, 2 length bytes, 2 extension bytes, then reserved(2) version(5) current_next(1)) *)
Definition table_version (p : Packet) : Z := (nth 6 (Packet_Payload p) 0 / 2) mod 32.

(* the PSI unit a PMT packet must carry for a given stream list, PCR PID and version *)
Definition pmt_psi (streams : list PMTElementaryStream) (pcr version : Z) : PSIData :=
  psi_of_section (pmt_section_of streams pcr version).

(* PIDs an automatically assigned PID must avoid *)
Definition auto_pid_ok (pid : Z) : Prop := C_startPID <= pid <= 8190 /\ pid <> C_pmtStartPID.

(* all counters of the payload packets the Muxer emitted on a PID over a run *)
Definition emitted_ccs (pid : Z) (evs : list (mop * part)) : list Z :=
  concat (map (fun e => payload_ccs pid (muxer_pkts (fst e) (snd e))) evs).

(* ---------------- automatic PIDs over a run (C17) ---------------- *)

Definition is_add (o : mop) : Z := match o with MAdd _ => 1 | _ => 0 end.
Definition adds (ops : list mop) : Z := fold_right (fun o a => is_add o + a) 0 ops.

(* the PIDs the automatic additions of a run were given, in order: the last stream after each successful
   AddElementaryStream with ElementaryPID = 0 *)
Fixpoint auto_pids (s : mstate) (ops : list mop) : list Z :=
  match ops with
  | [] => []
  | o :: r =>
      let s' := fst (mux_step_part s o) in
      let p := snd (mux_step_part s o) in
      (match o with
       | MAdd es => if (PMTElementaryStream_ElementaryPID es =? 0) && is_ok (pa_res p)
                    then [PMTElementaryStream_ElementaryPID (last (ms_streams s') zero_PMTElementaryStream)] else []
       | _ => []
       end) ++ auto_pids s' r
  end.

(* 0x1EFE: the PIDs of [startPID, 0x1FFE] without pmtStartPID *)
Definition max_adds : Z := 7934.

(* ---------------- table emissions over a run (C17) ---------------- *)

(* the content of the PMT changes with a successful addition or removal and with every SetPCRPID *)
Definition content_change (o : mop) (p : part) : bool :=
  match o with
  | MAdd _ | MRemove _ => is_ok (pa_res p)
  | MSetPCR _ => true
  | _ => false
  end.

(* the emissions of a run: for each call whose packets start with PAT;PMT, whether the content changed since the
   previous emission, and the version counters right after it (what VerifState reports; C17_content ties them to
   the sections emitted) *)
Fixpoint emissions (s : mstate) (ops : list mop) (changed : bool) : list (bool * Z * Z) :=
  match ops with
  | [] => []
  | o :: r =>
      let s' := fst (mux_step_part s o) in
      let p := snd (mux_step_part s o) in
      let ch := changed || content_change o p in
      if starts_with_tables (muxer_pkts o p)
      then (ch, wrappingCounter_value (ms_pat_version s'), wrappingCounter_value (ms_pmt_version s')) :: emissions s' r false
      else emissions s' r ch
  end.

(* between consecutive emissions the PAT version stays and the PMT version steps by one modulo 32 iff the content changed *)
Fixpoint version_rule (l : list (bool * Z * Z)) : Prop :=
  match l with
  | (_, pat1, pmt1) :: (((ch, pat2, pmt2) :: _) as r) =>
      pat2 = pat1 /\ pmt2 = (if ch then (pmt1 + 1) mod 32 else pmt1) /\ version_rule r
  | _ => True
  end.

(* the first call of a run that emits anything of the Muxer's own making starts with PAT;PMT *)
Fixpoint tables_first (evs : list (mop * part)) : Prop :=
  match evs with
  | [] => True
  | (o, p) :: r => match muxer_pkts o p with
                   | [] => tables_first r
                   | pkts => starts_with_tables pkts = true
                   end
  end.
