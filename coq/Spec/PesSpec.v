(* The domain of property C12 and what a conforming parser must return, written from
   ISO/IEC 13818-1 2.4.3.6 (PES packet), 2.4.3.7 (semantics) and Table 2-21, independently of
   Model/Pes.v: which optional-header values are well formed (every field within its width,
   pointers present iff their flags, fields of absent parts at their zero value), the derived fields
   a parser fills in, and the reference bit layout of the optional header as (width, value) fields. *)
From Coq Require Import ZArith List Lia Bool.
Require Import Base.Bits Gen.Consts Gen.Types.
Import ListNotations.
Open Scope Z_scope.

Definition cr (base ext : Z) : ClockReference :=
  {| ClockReference_Base := base; ClockReference_Extension := ext |}.

(* a 33-bit time stamp without extension (PTS, DTS) *)
Definition wf_ts (o : option ClockReference) : Prop :=
  exists b, 0 <= b < 2 ^ 33 /\ o = Some (cr b 0).
(* ESCR: 33-bit base, 9-bit extension *)
Definition wf_escr (o : option ClockReference) : Prop :=
  exists b e, 0 <= b < 2 ^ 33 /\ 0 <= e < 2 ^ 9 /\ o = Some (cr b e).

(* trick mode: control 0 fast_forward, 1 slow_motion, 2 freeze_frame, 3 fast_reverse, 4 slow_reverse, 5..7 reserved *)
Definition wf_dsm (m : DSMTrickMode) : Prop :=
  let c := DSMTrickMode_TrickModeControl m in
  0 <= c < 8 /\
  (if orb (c =? 0) (c =? 3) then
     0 <= DSMTrickMode_FieldID m < 4 /\ 0 <= DSMTrickMode_IntraSliceRefresh m < 2 /\
     0 <= DSMTrickMode_FrequencyTruncation m < 4 /\ DSMTrickMode_RepeatControl m = 0
   else if c =? 2 then
     0 <= DSMTrickMode_FieldID m < 4 /\ DSMTrickMode_IntraSliceRefresh m = 0 /\
     DSMTrickMode_FrequencyTruncation m = 0 /\ DSMTrickMode_RepeatControl m = 0
   else if orb (c =? 1) (c =? 4) then
     DSMTrickMode_FieldID m = 0 /\ DSMTrickMode_IntraSliceRefresh m = 0 /\
     DSMTrickMode_FrequencyTruncation m = 0 /\ 0 <= DSMTrickMode_RepeatControl m < 32
   else
     DSMTrickMode_FieldID m = 0 /\ DSMTrickMode_IntraSliceRefresh m = 0 /\
     DSMTrickMode_FrequencyTruncation m = 0 /\ DSMTrickMode_RepeatControl m = 0).

(* writable optional headers: well formed, and without the two parts the writer documents as
   unsupported (previous_PES_packet_CRC, pack_header_field) *)
Record wf_opt (h : PESOptionalHeader) : Prop := mk_wf_opt {
  wf_sc : 0 <= PESOptionalHeader_ScramblingControl h < 4;
  wf_ind : 0 <= PESOptionalHeader_PTSDTSIndicator h < 4;
  wf_pts : if 2 <=? PESOptionalHeader_PTSDTSIndicator h then wf_ts (PESOptionalHeader_PTS h)
           else PESOptionalHeader_PTS h = None;
  wf_dts : if PESOptionalHeader_PTSDTSIndicator h =? 3 then wf_ts (PESOptionalHeader_DTS h)
           else PESOptionalHeader_DTS h = None;
  wf_es : if PESOptionalHeader_HasESCR h then wf_escr (PESOptionalHeader_ESCR h)
          else PESOptionalHeader_ESCR h = None;
  wf_rate : if PESOptionalHeader_HasESRate h then 0 <= PESOptionalHeader_ESRate h < 2 ^ 22
            else PESOptionalHeader_ESRate h = 0;
  wf_tm : if PESOptionalHeader_HasDSMTrickMode h
          then exists m, PESOptionalHeader_DSMTrickMode h = Some m /\ wf_dsm m
          else PESOptionalHeader_DSMTrickMode h = None;
  wf_aci : if PESOptionalHeader_HasAdditionalCopyInfo h then 0 <= PESOptionalHeader_AdditionalCopyInfo h < 128
           else PESOptionalHeader_AdditionalCopyInfo h = 0;
  wf_crc : PESOptionalHeader_HasCRC h = false /\ PESOptionalHeader_CRC h = 0;
  wf_of : PESOptionalHeader_HasOptionalFields h = false;
  wf_pack : PESOptionalHeader_HasPackHeaderField h = false /\ PESOptionalHeader_PackField h = 0;
  wf_ext : PESOptionalHeader_HasExtension h = false ->
           PESOptionalHeader_HasPrivateData h = false /\ PESOptionalHeader_HasProgramPacketSequenceCounter h = false /\
           PESOptionalHeader_HasPSTDBuffer h = false /\ PESOptionalHeader_HasExtension2 h = false;
  wf_pd : if PESOptionalHeader_HasPrivateData h
          then length (PESOptionalHeader_PrivateData h) = 16%nat /\ bytes_ok (PESOptionalHeader_PrivateData h)
          else PESOptionalHeader_PrivateData h = [];
  wf_psc : if PESOptionalHeader_HasProgramPacketSequenceCounter h
           then 0 <= PESOptionalHeader_PacketSequenceCounter h < 128 /\ 0 <= PESOptionalHeader_MPEG1OrMPEG2ID h < 2 /\
                0 <= PESOptionalHeader_OriginalStuffingLength h < 64
           else PESOptionalHeader_PacketSequenceCounter h = 0 /\ PESOptionalHeader_MPEG1OrMPEG2ID h = 0 /\
                PESOptionalHeader_OriginalStuffingLength h = 0;
  wf_pstd : if PESOptionalHeader_HasPSTDBuffer h
            then 0 <= PESOptionalHeader_PSTDBufferScale h < 2 /\ 0 <= PESOptionalHeader_PSTDBufferSize h < 2 ^ 13
            else PESOptionalHeader_PSTDBufferScale h = 0 /\ PESOptionalHeader_PSTDBufferSize h = 0;
  wf_e2 : if PESOptionalHeader_HasExtension2 h
          then (length (PESOptionalHeader_Extension2Data h) <= 127)%nat /\ bytes_ok (PESOptionalHeader_Extension2Data h)
          else PESOptionalHeader_Extension2Data h = []
}.

(* PES_header_data_length of a header without stuffing: the sizes of the parts present *)
Definition ref_header_data_length (h : PESOptionalHeader) : Z :=
  (if PESOptionalHeader_PTSDTSIndicator h =? 2 then 5 else if PESOptionalHeader_PTSDTSIndicator h =? 3 then 10 else 0)
  + (if PESOptionalHeader_HasESCR h then 6 else 0)
  + (if PESOptionalHeader_HasESRate h then 3 else 0)
  + (if PESOptionalHeader_HasDSMTrickMode h then 1 else 0)
  + (if PESOptionalHeader_HasAdditionalCopyInfo h then 1 else 0)
  + (if PESOptionalHeader_HasExtension h then
       1 + (if PESOptionalHeader_HasPrivateData h then 16 else 0)
         + (if PESOptionalHeader_HasProgramPacketSequenceCounter h then 2 else 0)
         + (if PESOptionalHeader_HasPSTDBuffer h then 2 else 0)
         + (if PESOptionalHeader_HasExtension2 h then 1 + Z.of_nat (length (PESOptionalHeader_Extension2Data h)) else 0)
     else 0).

(* what a parser returns for the encoding of h: the value itself with the derived fields filled in
   ('10' marker bits, PES_header_data_length, PES_extension_field_length) *)
Definition observed_opt (h : PESOptionalHeader) : PESOptionalHeader :=
  {| PESOptionalHeader_AdditionalCopyInfo := PESOptionalHeader_AdditionalCopyInfo h;
     PESOptionalHeader_CRC := PESOptionalHeader_CRC h;
     PESOptionalHeader_DataAlignmentIndicator := PESOptionalHeader_DataAlignmentIndicator h;
     PESOptionalHeader_DSMTrickMode := PESOptionalHeader_DSMTrickMode h;
     PESOptionalHeader_DTS := PESOptionalHeader_DTS h;
     PESOptionalHeader_ESCR := PESOptionalHeader_ESCR h;
     PESOptionalHeader_ESRate := PESOptionalHeader_ESRate h;
     PESOptionalHeader_Extension2Data := PESOptionalHeader_Extension2Data h;
     PESOptionalHeader_Extension2Length := Z.of_nat (length (PESOptionalHeader_Extension2Data h));
     PESOptionalHeader_HasAdditionalCopyInfo := PESOptionalHeader_HasAdditionalCopyInfo h;
     PESOptionalHeader_HasCRC := PESOptionalHeader_HasCRC h;
     PESOptionalHeader_HasDSMTrickMode := PESOptionalHeader_HasDSMTrickMode h;
     PESOptionalHeader_HasESCR := PESOptionalHeader_HasESCR h;
     PESOptionalHeader_HasESRate := PESOptionalHeader_HasESRate h;
     PESOptionalHeader_HasExtension := PESOptionalHeader_HasExtension h;
     PESOptionalHeader_HasExtension2 := PESOptionalHeader_HasExtension2 h;
     PESOptionalHeader_HasOptionalFields := PESOptionalHeader_HasOptionalFields h;
     PESOptionalHeader_HasPackHeaderField := PESOptionalHeader_HasPackHeaderField h;
     PESOptionalHeader_HasPrivateData := PESOptionalHeader_HasPrivateData h;
     PESOptionalHeader_HasProgramPacketSequenceCounter := PESOptionalHeader_HasProgramPacketSequenceCounter h;
     PESOptionalHeader_HasPSTDBuffer := PESOptionalHeader_HasPSTDBuffer h;
     PESOptionalHeader_HeaderLength := ref_header_data_length h;
     PESOptionalHeader_IsCopyrighted := PESOptionalHeader_IsCopyrighted h;
     PESOptionalHeader_IsOriginal := PESOptionalHeader_IsOriginal h;
     PESOptionalHeader_MarkerBits := 2;
     PESOptionalHeader_MPEG1OrMPEG2ID := PESOptionalHeader_MPEG1OrMPEG2ID h;
     PESOptionalHeader_OriginalStuffingLength := PESOptionalHeader_OriginalStuffingLength h;
     PESOptionalHeader_PacketSequenceCounter := PESOptionalHeader_PacketSequenceCounter h;
     PESOptionalHeader_PackField := PESOptionalHeader_PackField h;
     PESOptionalHeader_Priority := PESOptionalHeader_Priority h;
     PESOptionalHeader_PrivateData := PESOptionalHeader_PrivateData h;
     PESOptionalHeader_PSTDBufferScale := PESOptionalHeader_PSTDBufferScale h;
     PESOptionalHeader_PSTDBufferSize := PESOptionalHeader_PSTDBufferSize h;
     PESOptionalHeader_PTS := PESOptionalHeader_PTS h;
     PESOptionalHeader_PTSDTSIndicator := PESOptionalHeader_PTSDTSIndicator h;
     PESOptionalHeader_ScramblingControl := PESOptionalHeader_ScramblingControl h |}.

(* ---------------- the PES packet header ---------------- *)

(* stream ids whose packets carry the optional header. Table 2-21 excludes program_stream_map 0xBC, padding_stream 0xBE,
   private_stream_2 0xBF, ECM 0xF0, EMM 0xF1, DSMCC_stream 0xF2, H.222.1 type E 0xF8 and program_stream_directory 0xFF;
   the library excludes only 0xBE and 0xBF (known finding K4), and the theorems about it are stated for its set. *)
Definition iso_has_optional_header (sid : Z) : bool :=
  negb (existsb (Z.eqb sid) [188; 190; 191; 240; 241; 242; 248; 255]).
Definition lib_has_optional_header (sid : Z) : bool := negb (orb (sid =? 190) (sid =? 191)).

(* PES_packet_length as the writer chooses it: 0 (unbounded) for the video stream ids 0xE0 and 0xFD and when the
   value does not fit 16 bits, otherwise the number of bytes behind the field *)
Definition ref_packet_length (sid optlen payload : Z) : Z :=
  if orb (sid =? 224) (sid =? 253) then 0
  else if optlen + payload >? 65535 then 0
  else optlen + payload.

Definition wf_header (h : PESHeader) : Prop :=
  0 <= PESHeader_StreamID h < 256 /\
  (lib_has_optional_header (PESHeader_StreamID h) = true ->
   exists oh, PESHeader_OptionalHeader h = Some oh /\ wf_opt oh).

Definition ref_opt_len (h : PESHeader) : Z :=
  if lib_has_optional_header (PESHeader_StreamID h)
  then match PESHeader_OptionalHeader h with Some oh => 3 + ref_header_data_length oh | None => 0 end
  else 0.

(* what a parser returns for the encoding of h in front of a payload of n bytes *)
Definition observed_header (h : PESHeader) (n : Z) : PESHeader :=
  {| PESHeader_OptionalHeader :=
       if lib_has_optional_header (PESHeader_StreamID h)
       then option_map observed_opt (PESHeader_OptionalHeader h) else None;
     PESHeader_PacketLength := ref_packet_length (PESHeader_StreamID h) (ref_opt_len h) n;
     PESHeader_StreamID := PESHeader_StreamID h |}.

(* ---------------- every header a parser must accept: CRC, pack header, stuffing ---------------- *)

(* h without the two parts the writer does not support *)
Definition strip (h : PESOptionalHeader) : PESOptionalHeader :=
  {| PESOptionalHeader_AdditionalCopyInfo := PESOptionalHeader_AdditionalCopyInfo h;
     PESOptionalHeader_CRC := 0;
     PESOptionalHeader_DataAlignmentIndicator := PESOptionalHeader_DataAlignmentIndicator h;
     PESOptionalHeader_DSMTrickMode := PESOptionalHeader_DSMTrickMode h;
     PESOptionalHeader_DTS := PESOptionalHeader_DTS h;
     PESOptionalHeader_ESCR := PESOptionalHeader_ESCR h;
     PESOptionalHeader_ESRate := PESOptionalHeader_ESRate h;
     PESOptionalHeader_Extension2Data := PESOptionalHeader_Extension2Data h;
     PESOptionalHeader_Extension2Length := PESOptionalHeader_Extension2Length h;
     PESOptionalHeader_HasAdditionalCopyInfo := PESOptionalHeader_HasAdditionalCopyInfo h;
     PESOptionalHeader_HasCRC := false;
     PESOptionalHeader_HasDSMTrickMode := PESOptionalHeader_HasDSMTrickMode h;
     PESOptionalHeader_HasESCR := PESOptionalHeader_HasESCR h;
     PESOptionalHeader_HasESRate := PESOptionalHeader_HasESRate h;
     PESOptionalHeader_HasExtension := PESOptionalHeader_HasExtension h;
     PESOptionalHeader_HasExtension2 := PESOptionalHeader_HasExtension2 h;
     PESOptionalHeader_HasOptionalFields := PESOptionalHeader_HasOptionalFields h;
     PESOptionalHeader_HasPackHeaderField := false;
     PESOptionalHeader_HasPrivateData := PESOptionalHeader_HasPrivateData h;
     PESOptionalHeader_HasProgramPacketSequenceCounter := PESOptionalHeader_HasProgramPacketSequenceCounter h;
     PESOptionalHeader_HasPSTDBuffer := PESOptionalHeader_HasPSTDBuffer h;
     PESOptionalHeader_HeaderLength := PESOptionalHeader_HeaderLength h;
     PESOptionalHeader_IsCopyrighted := PESOptionalHeader_IsCopyrighted h;
     PESOptionalHeader_IsOriginal := PESOptionalHeader_IsOriginal h;
     PESOptionalHeader_MarkerBits := PESOptionalHeader_MarkerBits h;
     PESOptionalHeader_MPEG1OrMPEG2ID := PESOptionalHeader_MPEG1OrMPEG2ID h;
     PESOptionalHeader_OriginalStuffingLength := PESOptionalHeader_OriginalStuffingLength h;
     PESOptionalHeader_PacketSequenceCounter := PESOptionalHeader_PacketSequenceCounter h;
     PESOptionalHeader_PackField := 0;
     PESOptionalHeader_Priority := PESOptionalHeader_Priority h;
     PESOptionalHeader_PrivateData := PESOptionalHeader_PrivateData h;
     PESOptionalHeader_PSTDBufferScale := PESOptionalHeader_PSTDBufferScale h;
     PESOptionalHeader_PSTDBufferSize := PESOptionalHeader_PSTDBufferSize h;
     PESOptionalHeader_PTS := PESOptionalHeader_PTS h;
     PESOptionalHeader_PTSDTSIndicator := PESOptionalHeader_PTSDTSIndicator h;
     PESOptionalHeader_ScramblingControl := PESOptionalHeader_ScramblingControl h |}.

(* PES_header_data_length without stuffing, all parts *)
Definition ref_header_data_length_all (h : PESOptionalHeader) : Z :=
  ref_header_data_length h
  + (if PESOptionalHeader_HasCRC h then 2 else 0)
  + (if andb (PESOptionalHeader_HasExtension h) (PESOptionalHeader_HasPackHeaderField h)
     then 1 + PESOptionalHeader_PackField h else 0).

(* a well-formed optional header with the pack_header() bytes that go with it and a number of stuffing bytes:
   the other parts as for a writable header, any 16-bit CRC, a pack header of pack_field_length bytes,
   and a PES_header_data_length that fits its 8 bits *)
Definition wf_all (h : PESOptionalHeader) (pack : list Z) (stuffing : nat) : Prop :=
  wf_opt (strip h) /\
  (if PESOptionalHeader_HasCRC h then 0 <= PESOptionalHeader_CRC h < 2 ^ 16 else PESOptionalHeader_CRC h = 0) /\
  (PESOptionalHeader_HasExtension h = false -> PESOptionalHeader_HasPackHeaderField h = false) /\
  (if PESOptionalHeader_HasPackHeaderField h
   then PESOptionalHeader_PackField h = Z.of_nat (length pack) /\ bytes_ok pack
   else PESOptionalHeader_PackField h = 0 /\ pack = []) /\
  ref_header_data_length_all h + Z.of_nat stuffing <= 255.

(* the value a parser returns for h encoded with that many stuffing bytes *)
Definition observed_all (h : PESOptionalHeader) (stuffing : nat) : PESOptionalHeader :=
  {| PESOptionalHeader_AdditionalCopyInfo := PESOptionalHeader_AdditionalCopyInfo h;
     PESOptionalHeader_CRC := PESOptionalHeader_CRC h;
     PESOptionalHeader_DataAlignmentIndicator := PESOptionalHeader_DataAlignmentIndicator h;
     PESOptionalHeader_DSMTrickMode := PESOptionalHeader_DSMTrickMode h;
     PESOptionalHeader_DTS := PESOptionalHeader_DTS h;
     PESOptionalHeader_ESCR := PESOptionalHeader_ESCR h;
     PESOptionalHeader_ESRate := PESOptionalHeader_ESRate h;
     PESOptionalHeader_Extension2Data := PESOptionalHeader_Extension2Data h;
     PESOptionalHeader_Extension2Length := Z.of_nat (length (PESOptionalHeader_Extension2Data h));
     PESOptionalHeader_HasAdditionalCopyInfo := PESOptionalHeader_HasAdditionalCopyInfo h;
     PESOptionalHeader_HasCRC := PESOptionalHeader_HasCRC h;
     PESOptionalHeader_HasDSMTrickMode := PESOptionalHeader_HasDSMTrickMode h;
     PESOptionalHeader_HasESCR := PESOptionalHeader_HasESCR h;
     PESOptionalHeader_HasESRate := PESOptionalHeader_HasESRate h;
     PESOptionalHeader_HasExtension := PESOptionalHeader_HasExtension h;
     PESOptionalHeader_HasExtension2 := PESOptionalHeader_HasExtension2 h;
     PESOptionalHeader_HasOptionalFields := PESOptionalHeader_HasOptionalFields h;
     PESOptionalHeader_HasPackHeaderField := PESOptionalHeader_HasPackHeaderField h;
     PESOptionalHeader_HasPrivateData := PESOptionalHeader_HasPrivateData h;
     PESOptionalHeader_HasProgramPacketSequenceCounter := PESOptionalHeader_HasProgramPacketSequenceCounter h;
     PESOptionalHeader_HasPSTDBuffer := PESOptionalHeader_HasPSTDBuffer h;
     PESOptionalHeader_HeaderLength := ref_header_data_length_all h + Z.of_nat stuffing;
     PESOptionalHeader_IsCopyrighted := PESOptionalHeader_IsCopyrighted h;
     PESOptionalHeader_IsOriginal := PESOptionalHeader_IsOriginal h;
     PESOptionalHeader_MarkerBits := 2;
     PESOptionalHeader_MPEG1OrMPEG2ID := PESOptionalHeader_MPEG1OrMPEG2ID h;
     PESOptionalHeader_OriginalStuffingLength := PESOptionalHeader_OriginalStuffingLength h;
     PESOptionalHeader_PacketSequenceCounter := PESOptionalHeader_PacketSequenceCounter h;
     PESOptionalHeader_PackField := PESOptionalHeader_PackField h;
     PESOptionalHeader_Priority := PESOptionalHeader_Priority h;
     PESOptionalHeader_PrivateData := PESOptionalHeader_PrivateData h;
     PESOptionalHeader_PSTDBufferScale := PESOptionalHeader_PSTDBufferScale h;
     PESOptionalHeader_PSTDBufferSize := PESOptionalHeader_PSTDBufferSize h;
     PESOptionalHeader_PTS := PESOptionalHeader_PTS h;
     PESOptionalHeader_PTSDTSIndicator := PESOptionalHeader_PTSDTSIndicator h;
     PESOptionalHeader_ScramblingControl := PESOptionalHeader_ScramblingControl h |}.

(* ---------------- the reference bit layout (2.4.3.6), as (width, value) fields ---------------- *)

Definition fld : Type := (nat * Z)%type.
Definition fbits (l : list fld) : list bool := flat_map (fun f => bits_of (fst f) (snd f)) l.
Definition flag (b : bool) : fld := (1%nat, if b then 1 else 0).
Definition marker : fld := (1%nat, 1).
Definition byte_fields (bs : list Z) : list fld := map (fun b => (8%nat, b)) bs.
Definition base_of (o : option ClockReference) : Z := match o with Some c => ClockReference_Base c | None => 0 end.
Definition ext_of_cr (o : option ClockReference) : Z := match o with Some c => ClockReference_Extension c | None => 0 end.

(* prefix(4) TS[32..30] marker TS[29..15] marker TS[14..0] marker *)
Definition ref_ts (prefix base : Z) : list fld :=
  [(4%nat, prefix); (3%nat, base / 2 ^ 30); marker; (15%nat, base / 2 ^ 15); marker; (15%nat, base); marker].
(* reserved(2) base[32..30] marker base[29..15] marker base[14..0] marker extension(9) marker *)
Definition ref_escr (base ext : Z) : list fld :=
  [(2%nat, 3); (3%nat, base / 2 ^ 30); marker; (15%nat, base / 2 ^ 15); marker; (15%nat, base); marker;
   (9%nat, ext); marker].
(* trick_mode_control(3) then by mode *)
Definition ref_dsm (m : DSMTrickMode) : list fld :=
  let c := DSMTrickMode_TrickModeControl m in
  (3%nat, c) ::
  (if orb (c =? 0) (c =? 3) then
     [(2%nat, DSMTrickMode_FieldID m); (1%nat, DSMTrickMode_IntraSliceRefresh m); (2%nat, DSMTrickMode_FrequencyTruncation m)]
   else if c =? 2 then [(2%nat, DSMTrickMode_FieldID m); (3%nat, 7)]
   else if orb (c =? 1) (c =? 4) then [(5%nat, DSMTrickMode_RepeatControl m)]
   else [(5%nat, 31)]).

Definition ref_opt_fields (h : PESOptionalHeader) (pack : list Z) (stuffing : nat) : list fld :=
  let ind := PESOptionalHeader_PTSDTSIndicator h in
  [(2%nat, 2); (2%nat, PESOptionalHeader_ScramblingControl h); flag (PESOptionalHeader_Priority h);
   flag (PESOptionalHeader_DataAlignmentIndicator h); flag (PESOptionalHeader_IsCopyrighted h);
   flag (PESOptionalHeader_IsOriginal h);
   (2%nat, ind); flag (PESOptionalHeader_HasESCR h); flag (PESOptionalHeader_HasESRate h);
   flag (PESOptionalHeader_HasDSMTrickMode h); flag (PESOptionalHeader_HasAdditionalCopyInfo h);
   flag (PESOptionalHeader_HasCRC h); flag (PESOptionalHeader_HasExtension h);
   (8%nat, ref_header_data_length_all h + Z.of_nat stuffing)]
  ++ (if ind =? 2 then ref_ts 2 (base_of (PESOptionalHeader_PTS h))
      else if ind =? 3 then ref_ts 3 (base_of (PESOptionalHeader_PTS h)) ++ ref_ts 1 (base_of (PESOptionalHeader_DTS h))
      else [])
  ++ (if PESOptionalHeader_HasESCR h
      then ref_escr (base_of (PESOptionalHeader_ESCR h)) (ext_of_cr (PESOptionalHeader_ESCR h)) else [])
  ++ (if PESOptionalHeader_HasESRate h then [marker; (22%nat, PESOptionalHeader_ESRate h); marker] else [])
  ++ (if PESOptionalHeader_HasDSMTrickMode h
      then match PESOptionalHeader_DSMTrickMode h with Some m => ref_dsm m | None => [] end else [])
  ++ (if PESOptionalHeader_HasAdditionalCopyInfo h then [marker; (7%nat, PESOptionalHeader_AdditionalCopyInfo h)] else [])
  ++ (if PESOptionalHeader_HasCRC h then [(16%nat, PESOptionalHeader_CRC h)] else [])
  ++ (if PESOptionalHeader_HasExtension h then
        [flag (PESOptionalHeader_HasPrivateData h); flag (PESOptionalHeader_HasPackHeaderField h);
         flag (PESOptionalHeader_HasProgramPacketSequenceCounter h); flag (PESOptionalHeader_HasPSTDBuffer h);
         (3%nat, 7); flag (PESOptionalHeader_HasExtension2 h)]
        ++ (if PESOptionalHeader_HasPrivateData h then byte_fields (PESOptionalHeader_PrivateData h) else [])
        ++ (if PESOptionalHeader_HasPackHeaderField h
            then (8%nat, Z.of_nat (length pack)) :: byte_fields pack else [])
        ++ (if PESOptionalHeader_HasProgramPacketSequenceCounter h
            then [marker; (7%nat, PESOptionalHeader_PacketSequenceCounter h); marker;
                  (1%nat, PESOptionalHeader_MPEG1OrMPEG2ID h); (6%nat, PESOptionalHeader_OriginalStuffingLength h)] else [])
        ++ (if PESOptionalHeader_HasPSTDBuffer h
            then [(2%nat, 1); (1%nat, PESOptionalHeader_PSTDBufferScale h); (13%nat, PESOptionalHeader_PSTDBufferSize h)] else [])
        ++ (if PESOptionalHeader_HasExtension2 h
            then marker :: (7%nat, Z.of_nat (length (PESOptionalHeader_Extension2Data h))) ::
                 byte_fields (PESOptionalHeader_Extension2Data h) else [])
      else [])
  ++ repeat (8%nat, 255) stuffing.

(* the reference encoding of the optional header: two flag bytes, PES_header_data_length, header data, stuffing *)
Definition ref_opt_bytes (h : PESOptionalHeader) (pack : list Z) (stuffing : nat) : list Z :=
  bytes_of_bits (fbits (ref_opt_fields h pack stuffing)).

(* the whole PES packet header: packet_start_code_prefix(24) stream_id(8) PES_packet_length(16), optional header *)
Definition ref_pes_bytes (sid plen : Z) (h : PESOptionalHeader) (pack : list Z) (stuffing : nat) : list Z :=
  bytes_of_bits (fbits [(24%nat, 1); (8%nat, sid); (16%nat, plen)]) ++ ref_opt_bytes h pack stuffing.
Definition ref_pes_bytes_noopt (sid plen : Z) : list Z :=
  bytes_of_bits (fbits [(24%nat, 1); (8%nat, sid); (16%nat, plen)]).
