(* Independent reference for C15 (integers only).
   - the proleptic Gregorian calendar, twice: as the elementary day-by-day rule (month lengths and
     the leap-year rule: next_day) and in closed form (civil_of_days / days_of_civil, the
     era / day-of-era arithmetic; March-based years), neither taken from package time nor from dvb.go;
   - Modified Julian Date: days since 1858-11-17;
   - the two conversion formulas of EN 300 468 Annex C, read over the rationals (annex_c_ymd, annex_c_mjd);
   - two-digit BCD, digit by digit.
   Proofs/DvbProofs.v shows that the three descriptions of the calendar agree on the range of the
   property (and the Annex C formulas on their whole range of validity, 1900-03-01 .. 2100-02-28). *)
From Coq Require Import ZArith List Bool.
Import ListNotations.
Open Scope Z_scope.

(* ---- elementary calendar ---- *)

Definition leap_year (y : Z) : bool :=
  if y mod 400 =? 0 then true else if y mod 100 =? 0 then false else y mod 4 =? 0.

Definition month_length (y m : Z) : Z :=
  if m =? 2 then (if leap_year y then 29 else 28)
  else if orb (orb (m =? 4) (m =? 6)) (orb (m =? 9) (m =? 11)) then 30
  else 31.

Definition valid_date (c : Z * Z * Z) : bool :=
  let '(y, m, d) := c in andb (andb (1 <=? m) (m <=? 12)) (andb (1 <=? d) (d <=? month_length y m)).

Definition next_day (c : Z * Z * Z) : Z * Z * Z :=
  let '(y, m, d) := c in
  if d <? month_length y m then (y, m, d + 1)
  else if m <? 12 then (y, m + 1, 1)
  else (y + 1, 1, 1).

(* ---- closed form: days since 1970-01-01 <-> (year, month, day); / and mod are floor ---- *)

Definition days_of_civil (y m d : Z) : Z :=
  let y' := if m <=? 2 then y - 1 else y in
  let era := y' / 400 in
  let yoe := y' - era * 400 in
  let mp := (m + 9) mod 12 in
  let doy := (153 * mp + 2) / 5 + d - 1 in
  let doe := yoe * 365 + yoe / 4 - yoe / 100 + doy in
  era * 146097 + doe - 719468.

Definition civil_of_days (z : Z) : Z * Z * Z :=
  let z := z + 719468 in
  let era := z / 146097 in
  let doe := z - era * 146097 in
  let yoe := (doe - doe / 1460 + doe / 36524 - doe / 146096) / 365 in
  let doy := doe - (365 * yoe + yoe / 4 - yoe / 100) in
  let mp := (5 * doy + 2) / 153 in
  let d := doy - (153 * mp + 2) / 5 + 1 in
  let m := if mp <? 10 then mp + 3 else mp - 9 in
  let y := yoe + era * 400 in
  (if m <=? 2 then y + 1 else y, m, d).

(* ---- Modified Julian Date ---- *)

Definition mjd_epoch : Z := days_of_civil 1858 11 17.     (* = -40587 *)
Definition civil_of_mjd (mjd : Z) : Z * Z * Z := civil_of_days (mjd + mjd_epoch).
Definition mjd_of_civil (c : Z * Z * Z) : Z := let '(y, m, d) := c in days_of_civil y m d - mjd_epoch.

Definition mjd_lo : Z := 15079.   (* 1900-03-01 *)
Definition mjd_hi : Z := 65535.   (* 2038-04-22, the largest 16-bit value *)
Definition annex_c_hi : Z := 88127.   (* 2100-02-28, the end of the validity of the Annex C formulas *)

(* ---- EN 300 468 Annex C, formulas a) and b), over the rationals; int[] is the integer part
   (all arguments are non-negative on the range of validity, so floor) ---- *)

Definition annex_c_ymd (mjd : Z) : Z * Z * Z :=
  let y' := (20 * mjd - 301564) / 7305 in                       (* int[(MJD - 15078.2) / 365.25] *)
  let yd := (y' * 1461) / 4 in                                   (* int[Y' x 365.25] *)
  let m' := (10000 * (mjd - yd) - 149561000) / 306001 in        (* int[(MJD - 14956.1 - yd) / 30.6001] *)
  let d := mjd - 14956 - yd - (m' * 306001) / 10000 in
  let k := if orb (m' =? 14) (m' =? 15) then 1 else 0 in
  (1900 + y' + k, m' - 1 - k * 12, d).

Definition annex_c_mjd (c : Z * Z * Z) : Z :=
  let '(y, m, d) := c in
  let y := y - 1900 in
  let l := if orb (m =? 1) (m =? 2) then 1 else 0 in
  14956 + d + ((y - l) * 1461) / 4 + ((m + 1 + l * 12) * 306001) / 10000.

(* ---- BCD ---- *)

(* value of a byte read as two decimal digits (the digit-wise definition, also for digits above 9) *)
Definition bcd_value (b : Z) : Z := (b / 16) * 10 + b mod 16.
Definition bcd_valid (b : Z) : bool := andb (b / 16 <=? 9) (b mod 16 <=? 9).
(* the BCD byte of n < 100 *)
Definition bcd_byte (n : Z) : Z := (n / 10) * 16 + n mod 10.

(* ---- the 40-bit UTC_time field / start_time field ---- *)

Definition tod_seconds (h m s : Z) : Z := h * 3600 + m * 60 + s.

(* Unix seconds of the UTC time: calendar date of the MJD, time of day h:m:s *)
Definition spec_unix (mjd h m s : Z) : Z :=
  let '(y, mo, d) := civil_of_mjd mjd in 86400 * days_of_civil y mo d + tod_seconds h m s.

(* the five bytes: MJD big-endian, then hh mm ss in BCD *)
Definition spec_time_bytes (mjd h m s : Z) : list Z :=
  [mjd / 256; mjd mod 256; bcd_byte h; bcd_byte m; bcd_byte s].

Definition ns_per_second : Z := 1000000000.
(* durations in nanoseconds *)
Definition spec_duration_ns (h m s : Z) : Z := tod_seconds h m s * ns_per_second.
