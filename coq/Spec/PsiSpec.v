(* Independent reference: the bit layout of PSI sections from ISO/IEC 13818-1 2.4.4 (generic section
   syntax 2.4.4.11, program association section 2.4.4.3, TS program map section 2.4.4.8) as lists of
   (width, value) fields, most significant bit first, closed by the CRC_32 of Annex A
   (Spec.CrcSpec.crc32_mpeg2, bit by bit).  Shares nothing with the writers of Model/Psi.v: no BitsWriter,
   no length calculators, no table-driven checksum. *)
From Coq Require Import ZArith List Bool.
Require Import Base.Bits Spec.CrcSpec.
Import ListNotations.
Open Scope Z_scope.

Definition fields : Type := list (nat * Z).

Definition field_bits (f : nat * Z) : list bool := bits_of (fst f) (snd f).
Definition bits_of_fields (fs : fields) : list bool := flat_map field_bits fs.
Definition fields_width (fs : fields) : nat := fold_right (fun f n => (fst f + n)%nat) 0%nat fs.
Definition bytes_of_fields (fs : fields) : list Z := bytes_of_bits (bits_of_fields fs).

Definition flag (b : bool) : nat * Z := (1%nat, Z.b2z b).

(* ---- generic section ---- *)

(* table_id(8) section_syntax_indicator(1) private_indicator / '0'(1) reserved(2) section_length(12) *)
Definition spec_section_header (tid : Z) (ssi pb : bool) (section_length : Z) : fields :=
  [(8%nat, tid); flag ssi; flag pb; (2%nat, 3); (12%nat, section_length)].

(* table_id_extension(16) reserved(2) version_number(5) current_next_indicator(1)
   section_number(8) last_section_number(8) *)
Definition spec_syntax_header (ext version : Z) (current_next : bool) (section_number last_section_number : Z) : fields :=
  [(16%nat, ext); (2%nat, 3); (5%nat, version); flag current_next; (8%nat, section_number); (8%nat, last_section_number)].

(* a section with CRC_32: header, body (a whole number of bytes), CRC_32 over everything before it;
   section_length counts the bytes after the length field, CRC_32 included *)
Definition spec_section_prefix (tid : Z) (ssi pb : bool) (body : list Z) : list Z :=
  bytes_of_fields (spec_section_header tid ssi pb (Z.of_nat (length body) + 4)) ++ body.

Definition spec_section (tid : Z) (ssi pb : bool) (body : list Z) : list Z :=
  let pre := spec_section_prefix tid ssi pb body in
  pre ++ be32 (crc32_mpeg2 pre).

(* ---- program association section ---- *)

(* program_number(16) reserved(3) network_PID / program_map_PID(13) *)
Definition spec_pat_entry (program_number pid : Z) : fields := [(16%nat, program_number); (3%nat, 7); (13%nat, pid)].

Definition spec_pat_body (ext version : Z) (cni : bool) (sn lsn : Z) (programs : list (Z * Z)) : list Z :=
  bytes_of_fields (spec_syntax_header ext version cni sn lsn)
  ++ flat_map (fun p => bytes_of_fields (spec_pat_entry (fst p) (snd p))) programs.

Definition spec_pat_section (ssi pb : bool) (ext version : Z) (cni : bool) (sn lsn : Z) (programs : list (Z * Z)) : list Z :=
  spec_section 0 ssi pb (spec_pat_body ext version cni sn lsn programs).

(* ---- TS program map section, descriptor loops as opaque byte strings (their content is C14's subject) ---- *)

(* reserved(4) length(12) bytes *)
Definition spec_desc_loop (descriptors : list Z) : list Z :=
  bytes_of_fields [(4%nat, 15); (12%nat, Z.of_nat (length descriptors))] ++ descriptors.

(* stream_type(8) reserved(3) elementary_PID(13) reserved(4) ES_info_length(12) descriptors *)
Definition spec_pmt_stream (stream_type pid : Z) (descriptors : list Z) : list Z :=
  bytes_of_fields [(8%nat, stream_type); (3%nat, 7); (13%nat, pid)] ++ spec_desc_loop descriptors.

(* reserved(3) PCR_PID(13) reserved(4) program_info_length(12) descriptors, then the streams *)
Definition spec_pmt_body (ext version : Z) (cni : bool) (sn lsn : Z) (pcr_pid : Z) (program_info : list Z)
           (streams : list (Z * Z * list Z)) : list Z :=
  bytes_of_fields (spec_syntax_header ext version cni sn lsn)
  ++ bytes_of_fields [(3%nat, 7); (13%nat, pcr_pid)] ++ spec_desc_loop program_info
  ++ flat_map (fun s => spec_pmt_stream (fst (fst s)) (snd (fst s)) (snd s)) streams.

Definition spec_pmt_section (ssi pb : bool) (ext version : Z) (cni : bool) (sn lsn : Z) (pcr_pid : Z)
           (program_info : list Z) (streams : list (Z * Z * list Z)) : list Z :=
  spec_section 2 ssi pb (spec_pmt_body ext version cni sn lsn pcr_pid program_info streams).

(* ---- EN 300 468 5.2: SDT, NIT, EIT, TOT.  Descriptor loops are opaque byte strings (C14), the 40-bit UTC time and
   the 24-bit duration are opaque 5- and 3-byte strings (MJD + BCD, Annex C: C15) ---- *)

(* four bits (reserved, or running_status + free_CA_mode), a 12-bit length, that many bytes *)
Definition spec_loop16 (top4 : Z) (bytes : list Z) : list Z :=
  bytes_of_fields [(4%nat, top4); (12%nat, Z.of_nat (length bytes))] ++ bytes.

(* service_id(16) reserved(6) EIT_schedule(1) EIT_present_following(1) running_status(3) free_CA_mode(1)
   descriptors_loop_length(12) descriptors *)
Definition spec_sdt_service (service_id : Z) (sched pf : bool) (running : Z) (free_ca : bool) (descriptors : list Z) : list Z :=
  bytes_of_fields [(16%nat, service_id); (6%nat, 63); flag sched; flag pf]
  ++ spec_loop16 (running * 2 + Z.b2z free_ca) descriptors.

(* original_network_id(16) reserved(8), then the services *)
Definition spec_sdt_body (ext version : Z) (cni : bool) (sn lsn : Z) (onid : Z)
           (services : list (Z * bool * bool * Z * bool * list Z)) : list Z :=
  bytes_of_fields (spec_syntax_header ext version cni sn lsn)
  ++ bytes_of_fields [(16%nat, onid); (8%nat, 255)]
  ++ flat_map (fun s => match s with (sid, sc, pf, rs, fca, ds) => spec_sdt_service sid sc pf rs fca ds end) services.

(* transport_stream_id(16) original_network_id(16) reserved(4) transport_descriptors_length(12) descriptors *)
Definition spec_nit_ts (tsid onid : Z) (descriptors : list Z) : list Z :=
  bytes_of_fields [(16%nat, tsid); (16%nat, onid)] ++ spec_loop16 15 descriptors.

(* reserved(4) network_descriptors_length(12) descriptors reserved(4) transport_stream_loop_length(12) loop *)
Definition spec_nit_body (ext version : Z) (cni : bool) (sn lsn : Z) (network_descriptors : list Z)
           (streams : list (Z * Z * list Z)) : list Z :=
  bytes_of_fields (spec_syntax_header ext version cni sn lsn)
  ++ spec_loop16 15 network_descriptors
  ++ spec_loop16 15 (flat_map (fun t => spec_nit_ts (fst (fst t)) (snd (fst t)) (snd t)) streams).

(* event_id(16) start_time(40) duration(24) running_status(3) free_CA_mode(1) descriptors_loop_length(12) descriptors *)
Definition spec_eit_event (event_id : Z) (start_time duration : list Z) (running : Z) (free_ca : bool)
           (descriptors : list Z) : list Z :=
  bytes_of_fields [(16%nat, event_id)] ++ start_time ++ duration
  ++ spec_loop16 (running * 2 + Z.b2z free_ca) descriptors.

(* transport_stream_id(16) original_network_id(16) segment_last_section_number(8) last_table_id(8), events *)
Definition spec_eit_body (ext version : Z) (cni : bool) (sn lsn : Z) (tsid onid slsn ltid : Z)
           (events : list (Z * list Z * list Z * Z * bool * list Z)) : list Z :=
  bytes_of_fields (spec_syntax_header ext version cni sn lsn)
  ++ bytes_of_fields [(16%nat, tsid); (16%nat, onid); (8%nat, slsn); (8%nat, ltid)]
  ++ flat_map (fun e => match e with (eid, st, du, rs, fca, ds) => spec_eit_event eid st du rs fca ds end) events.

(* UTC_time(40) reserved(4) descriptors_loop_length(12) descriptors; the TOT has no table_id_extension part *)
Definition spec_tot_body (utc_time : list Z) (descriptors : list Z) : list Z :=
  utc_time ++ spec_loop16 15 descriptors.

(* ---- the reference decoder's gate (Annex A): a section is accepted only if the CRC_32 of everything
   before the last four bytes equals those four bytes ---- *)
Definition spec_crc_ok (section : list Z) : Prop :=
  exists pre, section = pre ++ be32 (crc32_mpeg2 pre).
