(* The domain of property C11 and the reference encoding of a transport packet, written from
   ISO/IEC 13818-1 2.4.3.2 (Table 2-2, transport packet), 2.4.3.4 (Table 2-6, adaptation field) and
   2.4.3.5 (semantics), independently of Model/Packet.v: which packets are well formed (every field
   within its width, pointers present iff their flags, fields of absent parts at their zero value,
   the whole packet exactly 188 bytes), the derived fields a parser fills in, and the bit layout as a
   list of (width, value) fields. *)
From Coq Require Import ZArith List Lia Bool.
Require Import Base.Bits Gen.Consts Gen.Types Spec.PesSpec.
Import ListNotations.
Open Scope Z_scope.

(* ---------------- well-formed values ---------------- *)

(* PCR / OPCR: 33-bit base, 9-bit extension *)
Definition wf_pcr (o : option ClockReference) : Prop :=
  exists b e, 0 <= b < 2 ^ 33 /\ 0 <= e < 2 ^ 9 /\ o = Some (cr b e).

(* transport packet header: 13-bit PID, 2-bit transport_scrambling_control, 4-bit continuity_counter *)
Record wf_packet_header (h : PacketHeader) : Prop := mk_wf_packet_header {
  wfh_pid : 0 <= PacketHeader_PID h < 2 ^ 13;
  wfh_tsc : 0 <= PacketHeader_TransportScramblingControl h < 4;
  wfh_cc : 0 <= PacketHeader_ContinuityCounter h < 16
}.

(* adaptation field extension: ltw_offset 15 bits, piecewise_rate 22 bits, splice_type 4 bits,
   DTS_next_AU 33 bits (no extension) *)
Record wf_afe (e : PacketAdaptationExtensionField) : Prop := mk_wf_afe {
  wfe_ltw : if PacketAdaptationExtensionField_HasLegalTimeWindow e
            then 0 <= PacketAdaptationExtensionField_LegalTimeWindowOffset e < 2 ^ 15
            else PacketAdaptationExtensionField_LegalTimeWindowIsValid e = false /\
                 PacketAdaptationExtensionField_LegalTimeWindowOffset e = 0;
  wfe_pr : if PacketAdaptationExtensionField_HasPiecewiseRate e
           then 0 <= PacketAdaptationExtensionField_PiecewiseRate e < 2 ^ 22
           else PacketAdaptationExtensionField_PiecewiseRate e = 0;
  wfe_ss : if PacketAdaptationExtensionField_HasSeamlessSplice e
           then 0 <= PacketAdaptationExtensionField_SpliceType e < 16 /\
                wf_ts (PacketAdaptationExtensionField_DTSNextAccessUnit e)
           else PacketAdaptationExtensionField_SpliceType e = 0 /\
                PacketAdaptationExtensionField_DTSNextAccessUnit e = None
}.

(* adaptation_field_extension_length: the bytes behind the length byte (no reserved bytes) *)
Definition ref_afe_length (e : PacketAdaptationExtensionField) : Z :=
  1 + (if PacketAdaptationExtensionField_HasLegalTimeWindow e then 2 else 0)
    + (if PacketAdaptationExtensionField_HasPiecewiseRate e then 3 else 0)
    + (if PacketAdaptationExtensionField_HasSeamlessSplice e then 5 else 0).

(* the body of an adaptation field whose adaptation_field_length is at least 1 *)
Record wf_af_body (af : PacketAdaptationField) : Prop := mk_wf_af_body {
  wfa_pcr : if PacketAdaptationField_HasPCR af then wf_pcr (PacketAdaptationField_PCR af)
            else PacketAdaptationField_PCR af = None;
  wfa_opcr : if PacketAdaptationField_HasOPCR af then wf_pcr (PacketAdaptationField_OPCR af)
             else PacketAdaptationField_OPCR af = None;
  wfa_sc : if PacketAdaptationField_HasSplicingCountdown af
           then 0 <= PacketAdaptationField_SpliceCountdown af < 256
           else PacketAdaptationField_SpliceCountdown af = 0;
  wfa_tpd : if PacketAdaptationField_HasTransportPrivateData af
            then bytes_ok (PacketAdaptationField_TransportPrivateData af)
            else PacketAdaptationField_TransportPrivateData af = [];
  wfa_ext : if PacketAdaptationField_HasAdaptationExtensionField af
            then exists e, PacketAdaptationField_AdaptationExtensionField af = Some e /\ wf_afe e
            else PacketAdaptationField_AdaptationExtensionField af = None;
  wfa_stuff : 0 <= PacketAdaptationField_StuffingLength af
}.

(* adaptation_field_length = 0 (a single stuffing byte): nothing else is carried *)
Definition af_rest_zero (af : PacketAdaptationField) : Prop :=
  PacketAdaptationField_AdaptationExtensionField af = None /\
  PacketAdaptationField_OPCR af = None /\
  PacketAdaptationField_PCR af = None /\
  PacketAdaptationField_TransportPrivateData af = [] /\
  PacketAdaptationField_StuffingLength af = 0 /\
  PacketAdaptationField_SpliceCountdown af = 0 /\
  PacketAdaptationField_RandomAccessIndicator af = false /\
  PacketAdaptationField_DiscontinuityIndicator af = false /\
  PacketAdaptationField_ElementaryStreamPriorityIndicator af = false /\
  PacketAdaptationField_HasAdaptationExtensionField af = false /\
  PacketAdaptationField_HasOPCR af = false /\
  PacketAdaptationField_HasPCR af = false /\
  PacketAdaptationField_HasTransportPrivateData af = false /\
  PacketAdaptationField_HasSplicingCountdown af = false.

Definition wf_af (af : PacketAdaptationField) : Prop :=
  if PacketAdaptationField_IsOneByteStuffing af then af_rest_zero af else wf_af_body af.

(* adaptation_field_length: the bytes behind the length byte *)
Definition ref_af_length (af : PacketAdaptationField) : Z :=
  if PacketAdaptationField_IsOneByteStuffing af then 0 else
  1 + (if PacketAdaptationField_HasPCR af then 6 else 0)
    + (if PacketAdaptationField_HasOPCR af then 6 else 0)
    + (if PacketAdaptationField_HasSplicingCountdown af then 1 else 0)
    + (if PacketAdaptationField_HasTransportPrivateData af
       then 1 + Z.of_nat (length (PacketAdaptationField_TransportPrivateData af)) else 0)
    + (if PacketAdaptationField_HasAdaptationExtensionField af
       then match PacketAdaptationField_AdaptationExtensionField af with
            | Some e => 1 + ref_afe_length e | None => 0 end
       else 0)
    + PacketAdaptationField_StuffingLength af.

(* bytes the adaptation field occupies in the packet *)
Definition ref_af_size (o : option PacketAdaptationField) : Z :=
  match o with Some af => 1 + ref_af_length af | None => 0 end.

(* a conformant transport packet: adaptation_field_control in {01, 10, 11} (00 is excluded by the size
   equation), the adaptation field present iff its flag, payload bytes only with the payload flag,
   sync byte + 3 header bytes + adaptation field + payload = 188 bytes exactly *)
Record wf_packet (p : Packet) : Prop := mk_wf_packet {
  wfp_header : wf_packet_header (Packet_Header p);
  wfp_af : if PacketHeader_HasAdaptationField (Packet_Header p)
           then exists af, Packet_AdaptationField p = Some af /\ wf_af af
           else Packet_AdaptationField p = None;
  wfp_payload : if PacketHeader_HasPayload (Packet_Header p) then bytes_ok (Packet_Payload p)
                else Packet_Payload p = [];
  wfp_size : 4 + ref_af_size (Packet_AdaptationField p) + Z.of_nat (length (Packet_Payload p)) = 188
}.

(* ---------------- what a parser returns: the value with the derived fields filled in ---------------- *)

Definition observed_afe (e : PacketAdaptationExtensionField) : PacketAdaptationExtensionField :=
  {| PacketAdaptationExtensionField_DTSNextAccessUnit := PacketAdaptationExtensionField_DTSNextAccessUnit e;
     PacketAdaptationExtensionField_HasLegalTimeWindow := PacketAdaptationExtensionField_HasLegalTimeWindow e;
     PacketAdaptationExtensionField_HasPiecewiseRate := PacketAdaptationExtensionField_HasPiecewiseRate e;
     PacketAdaptationExtensionField_HasSeamlessSplice := PacketAdaptationExtensionField_HasSeamlessSplice e;
     PacketAdaptationExtensionField_LegalTimeWindowIsValid := PacketAdaptationExtensionField_LegalTimeWindowIsValid e;
     PacketAdaptationExtensionField_LegalTimeWindowOffset := PacketAdaptationExtensionField_LegalTimeWindowOffset e;
     PacketAdaptationExtensionField_Length := ref_afe_length e;
     PacketAdaptationExtensionField_PiecewiseRate := PacketAdaptationExtensionField_PiecewiseRate e;
     PacketAdaptationExtensionField_SpliceType := PacketAdaptationExtensionField_SpliceType e |}.

(* adaptation_field_length, transport_private_data_length and adaptation_field_extension_length *)
Definition observed_af (af : PacketAdaptationField) : PacketAdaptationField :=
  {| PacketAdaptationField_AdaptationExtensionField :=
       option_map observed_afe (PacketAdaptationField_AdaptationExtensionField af);
     PacketAdaptationField_OPCR := PacketAdaptationField_OPCR af;
     PacketAdaptationField_PCR := PacketAdaptationField_PCR af;
     PacketAdaptationField_TransportPrivateData := PacketAdaptationField_TransportPrivateData af;
     PacketAdaptationField_TransportPrivateDataLength :=
       Z.of_nat (length (PacketAdaptationField_TransportPrivateData af));
     PacketAdaptationField_Length := ref_af_length af;
     PacketAdaptationField_StuffingLength := PacketAdaptationField_StuffingLength af;
     PacketAdaptationField_SpliceCountdown := PacketAdaptationField_SpliceCountdown af;
     PacketAdaptationField_IsOneByteStuffing := PacketAdaptationField_IsOneByteStuffing af;
     PacketAdaptationField_RandomAccessIndicator := PacketAdaptationField_RandomAccessIndicator af;
     PacketAdaptationField_DiscontinuityIndicator := PacketAdaptationField_DiscontinuityIndicator af;
     PacketAdaptationField_ElementaryStreamPriorityIndicator := PacketAdaptationField_ElementaryStreamPriorityIndicator af;
     PacketAdaptationField_HasAdaptationExtensionField := PacketAdaptationField_HasAdaptationExtensionField af;
     PacketAdaptationField_HasOPCR := PacketAdaptationField_HasOPCR af;
     PacketAdaptationField_HasPCR := PacketAdaptationField_HasPCR af;
     PacketAdaptationField_HasTransportPrivateData := PacketAdaptationField_HasTransportPrivateData af;
     PacketAdaptationField_HasSplicingCountdown := PacketAdaptationField_HasSplicingCountdown af |}.

Definition observed (p : Packet) : Packet :=
  {| Packet_AdaptationField := option_map observed_af (Packet_AdaptationField p);
     Packet_Header := Packet_Header p;
     Packet_Payload := Packet_Payload p |}.

(* ---------------- the reference bit layout, as (width, value) fields ---------------- *)
(* fld, fbits, flag, marker, byte_fields, base_of, ext_of_cr: Spec/PesSpec.v *)

(* Table 2-2: transport_error_indicator payload_unit_start_indicator transport_priority PID(13)
   transport_scrambling_control(2) adaptation_field_control(2) continuity_counter(4) *)
Definition ref_header_fields (h : PacketHeader) : list fld :=
  [flag (PacketHeader_TransportErrorIndicator h); flag (PacketHeader_PayloadUnitStartIndicator h);
   flag (PacketHeader_TransportPriority h); (13%nat, PacketHeader_PID h);
   (2%nat, PacketHeader_TransportScramblingControl h);
   flag (PacketHeader_HasAdaptationField h); flag (PacketHeader_HasPayload h);
   (4%nat, PacketHeader_ContinuityCounter h)].

(* program_clock_reference_base(33) reserved(6) program_clock_reference_extension(9) *)
Definition ref_pcr (o : option ClockReference) : list fld :=
  [(33%nat, base_of o); (6%nat, 63); (9%nat, ext_of_cr o)].

(* adaptation_field_extension_length(8) ltw_flag piecewise_rate_flag seamless_splice_flag reserved(5);
   ltw_valid_flag ltw_offset(15); reserved(2) piecewise_rate(22);
   splice_type(4) DTS_next_AU[32..30] marker DTS_next_AU[29..15] marker DTS_next_AU[14..0] marker *)
Definition ref_afe_fields (e : PacketAdaptationExtensionField) : list fld :=
  [(8%nat, ref_afe_length e);
   flag (PacketAdaptationExtensionField_HasLegalTimeWindow e);
   flag (PacketAdaptationExtensionField_HasPiecewiseRate e);
   flag (PacketAdaptationExtensionField_HasSeamlessSplice e);
   (5%nat, 31)]
  ++ (if PacketAdaptationExtensionField_HasLegalTimeWindow e
      then [flag (PacketAdaptationExtensionField_LegalTimeWindowIsValid e);
            (15%nat, PacketAdaptationExtensionField_LegalTimeWindowOffset e)] else [])
  ++ (if PacketAdaptationExtensionField_HasPiecewiseRate e
      then [(2%nat, 3); (22%nat, PacketAdaptationExtensionField_PiecewiseRate e)] else [])
  ++ (if PacketAdaptationExtensionField_HasSeamlessSplice e
      then ref_ts (PacketAdaptationExtensionField_SpliceType e)
                  (base_of (PacketAdaptationExtensionField_DTSNextAccessUnit e)) else []).

(* Table 2-6: adaptation_field_length(8); if > 0: discontinuity_indicator random_access_indicator
   elementary_stream_priority_indicator PCR_flag OPCR_flag splicing_point_flag
   transport_private_data_flag adaptation_field_extension_flag; PCR; OPCR; splice_countdown(8);
   transport_private_data_length(8) + bytes; extension; then the stuffing bytes *)
Definition ref_af_prefix_fields (af : PacketAdaptationField) : list fld :=
  if PacketAdaptationField_IsOneByteStuffing af then [(8%nat, 0)] else
  [(8%nat, ref_af_length af);
   flag (PacketAdaptationField_DiscontinuityIndicator af);
   flag (PacketAdaptationField_RandomAccessIndicator af);
   flag (PacketAdaptationField_ElementaryStreamPriorityIndicator af);
   flag (PacketAdaptationField_HasPCR af);
   flag (PacketAdaptationField_HasOPCR af);
   flag (PacketAdaptationField_HasSplicingCountdown af);
   flag (PacketAdaptationField_HasTransportPrivateData af);
   flag (PacketAdaptationField_HasAdaptationExtensionField af)]
  ++ (if PacketAdaptationField_HasPCR af then ref_pcr (PacketAdaptationField_PCR af) else [])
  ++ (if PacketAdaptationField_HasOPCR af then ref_pcr (PacketAdaptationField_OPCR af) else [])
  ++ (if PacketAdaptationField_HasSplicingCountdown af
      then [(8%nat, PacketAdaptationField_SpliceCountdown af)] else [])
  ++ (if PacketAdaptationField_HasTransportPrivateData af
      then (8%nat, Z.of_nat (length (PacketAdaptationField_TransportPrivateData af))) ::
           byte_fields (PacketAdaptationField_TransportPrivateData af) else [])
  ++ (if PacketAdaptationField_HasAdaptationExtensionField af
      then match PacketAdaptationField_AdaptationExtensionField af with
           | Some e => ref_afe_fields e | None => [] end
      else []).

(* number of stuffing bytes in the adaptation field of a packet, and the value ISO prescribes for them *)
Definition stuffing_of (p : Packet) : Z :=
  match Packet_AdaptationField p with Some af => PacketAdaptationField_StuffingLength af | None => 0 end.
Definition ff_stuffing (p : Packet) : list Z := repeat 255 (Z.to_nat (stuffing_of p)).

(* sync_byte 0x47, header, adaptation field when adaptation_field_control is 1x (with the given stuffing bytes),
   payload *)
Definition ref_packet_fields_stuffed (p : Packet) (stuffing : list Z) : list fld :=
  (8%nat, 71) :: ref_header_fields (Packet_Header p)
  ++ (if PacketHeader_HasAdaptationField (Packet_Header p)
      then match Packet_AdaptationField p with
           | Some af => ref_af_prefix_fields af ++ byte_fields stuffing | None => [] end
      else [])
  ++ byte_fields (Packet_Payload p).

(* the reference encoding: stuffing bytes 0xFF *)
Definition ref_packet_fields (p : Packet) : list fld := ref_packet_fields_stuffed p (ff_stuffing p).

Definition ref_packet_bytes_stuffed (p : Packet) (stuffing : list Z) : list Z :=
  bytes_of_bits (fbits (ref_packet_fields_stuffed p stuffing)).
Definition ref_packet_bytes (p : Packet) : list Z := bytes_of_bits (fbits (ref_packet_fields p)).

(* a conformant 188-byte buffer: the reference encoding of a well-formed packet *)
Definition conformant (bs : list Z) : Prop := exists q, wf_packet q /\ bs = ref_packet_bytes q.
