(* Independent reference for C14.
   1. The number of bytes the body of each descriptor occupies in its standard layout (EN 300 468 6.2 / 6.4,
      ISO/IEC 13818-1 2.6, Annex D), as plain integers without any fixed-width arithmetic: size_<tag>, desc_size,
      loop_size.  The length byte a writer must emit is this number; C14_len states when the code does.
   2. The tag/length/value split of a descriptor loop, as a relation on the raw bytes: tlv_chain (the entries)
      and tlv_parse (the entries together with what a body parser returns when it is started at the entry's own
      boundary).  C14_tlv states that parseDescriptors computes exactly this. *)
From Coq Require Import ZArith List Lia Bool.
Require Import Base.Bits Base.Iter Gen.Consts Gen.Types.
Import ListNotations.
Open Scope Z_scope.

Definition zlen {A} (l : list A) : Z := Z.of_nat (length l).
Definition sumZ {A} (f : A -> Z) (l : list A) : Z := fold_right (fun x acc => f x + acc) 0 l.

(* ---------------- body sizes ---------------- *)

Definition size_ac3 (v : DescriptorAC3) : Z :=
  1 + Z.b2z (DescriptorAC3_HasComponentType v) + Z.b2z (DescriptorAC3_HasBSID v) + Z.b2z (DescriptorAC3_HasMainID v)
    + Z.b2z (DescriptorAC3_HasASVC v) + zlen (DescriptorAC3_AdditionalInfo v).
Definition size_avc_video (v : DescriptorAVCVideo) : Z := 4.
Definition size_component (v : DescriptorComponent) : Z := 6 + zlen (DescriptorComponent_Text v).
Definition size_content (v : DescriptorContent) : Z := 2 * zlen (DescriptorContent_Items v).
Definition size_data_stream_alignment (v : DescriptorDataStreamAlignment) : Z := 1.
Definition size_enhanced_ac3 (v : DescriptorEnhancedAC3) : Z :=
  1 + Z.b2z (DescriptorEnhancedAC3_HasComponentType v) + Z.b2z (DescriptorEnhancedAC3_HasBSID v)
    + Z.b2z (DescriptorEnhancedAC3_HasMainID v) + Z.b2z (DescriptorEnhancedAC3_HasASVC v)
    + Z.b2z (DescriptorEnhancedAC3_HasSubStream1 v) + Z.b2z (DescriptorEnhancedAC3_HasSubStream2 v)
    + Z.b2z (DescriptorEnhancedAC3_HasSubStream3 v) + zlen (DescriptorEnhancedAC3_AdditionalInfo v).
Definition size_extended_event_item (it : DescriptorExtendedEventItem) : Z :=
  2 + zlen (DescriptorExtendedEventItem_Description it) + zlen (DescriptorExtendedEventItem_Content it).
Definition size_extended_event_items (v : DescriptorExtendedEvent) : Z :=
  sumZ size_extended_event_item (DescriptorExtendedEvent_Items v).
Definition size_extended_event (v : DescriptorExtendedEvent) : Z :=
  6 + size_extended_event_items v + zlen (DescriptorExtendedEvent_Text v).
Definition size_supplementary_audio (v : DescriptorExtensionSupplementaryAudio) : Z :=
  1 + (if DescriptorExtensionSupplementaryAudio_HasLanguageCode v then 3 else 0)
    + zlen (DescriptorExtensionSupplementaryAudio_PrivateData v).
Definition size_extension (v : DescriptorExtension) : Z :=
  1 + (if DescriptorExtension_Tag v =? C_DescriptorTagExtensionSupplementaryAudio
       then match DescriptorExtension_SupplementaryAudio v with Some s => size_supplementary_audio s | None => 0 end
       else match DescriptorExtension_Unknown v with Some bs => zlen bs | None => 0 end).
Definition size_iso639 (v : DescriptorISO639LanguageAndAudioType) : Z := 4.
Definition size_local_time_offset (v : DescriptorLocalTimeOffset) : Z := 13 * zlen (DescriptorLocalTimeOffset_Items v).
Definition size_maximum_bitrate (v : DescriptorMaximumBitrate) : Z := 3.
Definition size_network_name (v : DescriptorNetworkName) : Z := zlen (DescriptorNetworkName_Name v).
Definition size_parental_rating (v : DescriptorParentalRating) : Z := 4 * zlen (DescriptorParentalRating_Items v).
Definition size_private_data_indicator (v : DescriptorPrivateDataIndicator) : Z := 4.
Definition size_private_data_specifier (v : DescriptorPrivateDataSpecifier) : Z := 4.
Definition size_registration (v : DescriptorRegistration) : Z := 4 + zlen (DescriptorRegistration_AdditionalIdentificationInfo v).
Definition size_service (v : DescriptorService) : Z := 3 + zlen (DescriptorService_Provider v) + zlen (DescriptorService_Name v).
Definition size_short_event (v : DescriptorShortEvent) : Z := 5 + zlen (DescriptorShortEvent_EventName v) + zlen (DescriptorShortEvent_Text v).
Definition size_stream_identifier (v : DescriptorStreamIdentifier) : Z := 1.
Definition size_subtitling (v : DescriptorSubtitling) : Z := 8 * zlen (DescriptorSubtitling_Items v).
Definition size_teletext (v : DescriptorTeletext) : Z := 5 * zlen (DescriptorTeletext_Items v).
Definition spec_is_vbi_line_service (id : Z) : bool :=
  (id =? 1) || (id =? 2) || (id =? 4) || (id =? 5) || (id =? 6) || (id =? 7).
Definition size_vbi_data_service (s : DescriptorVBIDataService) : Z :=
  2 + (if spec_is_vbi_line_service (DescriptorVBIDataService_DataServiceID s)
       then zlen (DescriptorVBIDataService_Descriptors s) else 1).
Definition size_vbi_data (v : DescriptorVBIData) : Z := sumZ size_vbi_data_service (DescriptorVBIData_Services v).
Definition size_unknown (v : DescriptorUnknown) : Z := zlen (DescriptorUnknown_Content v).

Definition osize {A} (f : A -> Z) (o : option A) : Z := match o with Some v => f v | None => 0 end.

Definition spec_is_user_defined (tag : Z) : bool := (128 <=? tag) && (tag <=? 254).

(* bytes of the body the tag selects (a descriptor without that body is an empty descriptor); tag values from
   the standards: EN 300 468 table 12, ISO/IEC 13818-1 table 2-45 *)
Definition desc_size (d : Descriptor) : Z :=
  let tag := Descriptor_Tag d in
  if spec_is_user_defined tag then zlen (Descriptor_UserDefined d)
  else if tag =? 106 then osize size_ac3 (Descriptor_AC3 d)
  else if tag =? 40 then osize size_avc_video (Descriptor_AVCVideo d)
  else if tag =? 80 then osize size_component (Descriptor_Component d)
  else if tag =? 84 then osize size_content (Descriptor_Content d)
  else if tag =? 6 then osize size_data_stream_alignment (Descriptor_DataStreamAlignment d)
  else if tag =? 122 then osize size_enhanced_ac3 (Descriptor_EnhancedAC3 d)
  else if tag =? 78 then osize size_extended_event (Descriptor_ExtendedEvent d)
  else if tag =? 127 then osize size_extension (Descriptor_Extension d)
  else if tag =? 10 then osize size_iso639 (Descriptor_ISO639LanguageAndAudioType d)
  else if tag =? 88 then osize size_local_time_offset (Descriptor_LocalTimeOffset d)
  else if tag =? 14 then osize size_maximum_bitrate (Descriptor_MaximumBitrate d)
  else if tag =? 64 then osize size_network_name (Descriptor_NetworkName d)
  else if tag =? 85 then osize size_parental_rating (Descriptor_ParentalRating d)
  else if tag =? 15 then osize size_private_data_indicator (Descriptor_PrivateDataIndicator d)
  else if tag =? 95 then osize size_private_data_specifier (Descriptor_PrivateDataSpecifier d)
  else if tag =? 5 then osize size_registration (Descriptor_Registration d)
  else if tag =? 72 then osize size_service (Descriptor_Service d)
  else if tag =? 77 then osize size_short_event (Descriptor_ShortEvent d)
  else if tag =? 82 then osize size_stream_identifier (Descriptor_StreamIdentifier d)
  else if tag =? 89 then osize size_subtitling (Descriptor_Subtitling d)
  else if tag =? 86 then osize size_teletext (Descriptor_Teletext d)
  else if tag =? 69 then osize size_vbi_data (Descriptor_VBIData d)
  else if tag =? 70 then osize size_teletext (Descriptor_VBITeletext d)
  else osize size_unknown (Descriptor_Unknown d).

(* a loop entry: tag, length byte, body *)
Definition loop_size (ds : list Descriptor) : Z := sumZ (fun d => 2 + desc_size d) ds.

(* ---------------- the TLV split of a loop ---------------- *)

Definition byte_of (bs : list Z) (pos : Z) : Z := nth (Z.to_nat pos) bs 0.

(* tlv_chain bs endp pos entries fin: starting at pos, entries (position, tag, length) are read while the
   position is before endp, each entry ending 2 + length bytes after its start; fin is where the walk stops *)
Inductive tlv_chain (bs : list Z) (endp : Z) : Z -> list (Z * Z * Z) -> Z -> Prop :=
| tlv_chain_done pos : endp <= pos -> tlv_chain bs endp pos [] pos
| tlv_chain_step pos es fin :
    pos < endp -> 0 <= pos -> pos + 2 <= zlen bs ->
    tlv_chain bs endp (pos + 2 + byte_of bs (pos + 1)) es fin ->
    tlv_chain bs endp pos ((pos, byte_of bs pos, byte_of bs (pos + 1)) :: es) fin.

(* the same walk, together with the descriptor a body parser yields for each entry when it is run on the
   untouched buffer at the entry's own body (position + 2) with the entry's own declared end *)
Inductive tlv_parse (hdr : Z -> Z -> Descriptor) (body : Z -> Z -> Z -> IM Descriptor) (bs : list Z) (endp : Z)
  : Z -> list Descriptor -> Z -> Prop :=
| tlv_parse_done pos : endp <= pos -> tlv_parse hdr body bs endp pos [] pos
| tlv_parse_empty pos ds fin :
    pos < endp -> 0 <= pos -> pos + 2 <= zlen bs -> byte_of bs (pos + 1) <= 0 ->
    tlv_parse hdr body bs endp (pos + 2) ds fin ->
    tlv_parse hdr body bs endp pos (hdr (byte_of bs pos) (byte_of bs (pos + 1)) :: ds) fin
| tlv_parse_body pos d i' ds fin :
    pos < endp -> 0 <= pos -> pos + 2 <= zlen bs -> 0 < byte_of bs (pos + 1) ->
    body (byte_of bs pos) (byte_of bs (pos + 1)) (pos + 2 + byte_of bs (pos + 1)) (mk_iter bs (pos + 2)) = Ok (d, i') ->
    tlv_parse hdr body bs endp (pos + 2 + byte_of bs (pos + 1)) ds fin ->
    tlv_parse hdr body bs endp pos (d :: ds) fin.

(* the 12-bit loop length in front of a loop that starts at pos *)
Definition loop_length_at (bs : list Z) (pos : Z) : Z :=
  (byte_of bs pos mod 16) * 256 + byte_of bs (pos + 1) mod 256.

(* ---------------- reference byte layouts of descriptor bodies (the byte-aligned ones) ---------------- *)
(* big-endian words *)
Definition be16_bytes (x : Z) : list Z := [(x / 256) mod 256; x mod 256].
Definition be32_bytes (x : Z) : list Z := [(x / 16777216) mod 256; (x / 65536) mod 256; (x / 256) mod 256; x mod 256].

(* EN 300 468 6.2.39 *)
Definition ref_stream_identifier (v : DescriptorStreamIdentifier) : list Z := [DescriptorStreamIdentifier_ComponentTag v].
(* ISO/IEC 13818-1 2.6.10 *)
Definition ref_data_stream_alignment (v : DescriptorDataStreamAlignment) : list Z := [DescriptorDataStreamAlignment_Type v].
(* 2.6.8: format_identifier(32) additional_identification_info *)
Definition ref_registration (v : DescriptorRegistration) : list Z :=
  be32_bytes (DescriptorRegistration_FormatIdentifier v) ++ DescriptorRegistration_AdditionalIdentificationInfo v.
(* 2.6.28 / EN 300 468 6.2.31 *)
Definition ref_private_data_indicator (v : DescriptorPrivateDataIndicator) : list Z := be32_bytes (DescriptorPrivateDataIndicator_Indicator v).
Definition ref_private_data_specifier (v : DescriptorPrivateDataSpecifier) : list Z := be32_bytes (DescriptorPrivateDataSpecifier_Specifier v).
(* 2.6.18 (one entry): ISO_639_language_code(24) audio_type(8) *)
Definition ref_iso639 (v : DescriptorISO639LanguageAndAudioType) : list Z :=
  DescriptorISO639LanguageAndAudioType_Language v ++ [DescriptorISO639LanguageAndAudioType_Type v].
(* 6.2.27 *)
Definition ref_network_name (v : DescriptorNetworkName) : list Z := DescriptorNetworkName_Name v.
(* 6.2.33: service_type, provider name with its length, service name with its length *)
Definition ref_service (v : DescriptorService) : list Z :=
  [DescriptorService_Type v; zlen (DescriptorService_Provider v)] ++ DescriptorService_Provider v ++
  [zlen (DescriptorService_Name v)] ++ DescriptorService_Name v.
(* 6.2.37: language, event name with its length, text with its length *)
Definition ref_short_event (v : DescriptorShortEvent) : list Z :=
  DescriptorShortEvent_Language v ++ [zlen (DescriptorShortEvent_EventName v)] ++ DescriptorShortEvent_EventName v ++
  [zlen (DescriptorShortEvent_Text v)] ++ DescriptorShortEvent_Text v.
(* 6.2.28: country_code(24) rating(8) per entry *)
Definition ref_parental_rating (v : DescriptorParentalRating) : list Z :=
  flat_map (fun it => DescriptorParentalRatingItem_CountryCode it ++ [DescriptorParentalRatingItem_Rating it]) (DescriptorParentalRating_Items v).
(* 6.2.41: language(24) subtitling_type(8) composition_page_id(16) ancillary_page_id(16) per entry *)
Definition ref_subtitling (v : DescriptorSubtitling) : list Z :=
  flat_map (fun it => DescriptorSubtitlingItem_Language it ++ [DescriptorSubtitlingItem_Type it] ++
                      be16_bytes (DescriptorSubtitlingItem_CompositionPageID it) ++ be16_bytes (DescriptorSubtitlingItem_AncillaryPageID it))
           (DescriptorSubtitling_Items v).
(* 6.2.9: content_nibble_level_1(4) content_nibble_level_2(4) user_byte(8) per entry *)
Definition ref_content (v : DescriptorContent) : list Z :=
  flat_map (fun it => [DescriptorContentItem_ContentNibbleLevel1 it * 16 + DescriptorContentItem_ContentNibbleLevel2 it;
                       DescriptorContentItem_UserByte it]) (DescriptorContent_Items v).
Definition ref_unknown (v : DescriptorUnknown) : list Z := DescriptorUnknown_Content v.
