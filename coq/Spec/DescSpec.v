(* Independent reference for C14 (filled in below). *)
From Coq Require Import ZArith List.
