(* Independent reference for C14, second part: the byte layouts of the bit-packed descriptor bodies, written from the
   standards as plain integer arithmetic on the field values (no bit lists, no writer): a flag f at bit k of a byte
   contributes f * 2^k, a w-bit field whose least significant bit is bit k contributes value * 2^k, reserved bits
   are 1.  (Spec/DescSpec.v holds the byte-aligned tags.) *)
From Coq Require Import ZArith List Lia Bool.
Require Import Base.Bits Gen.Consts Gen.Types Spec.DescSpec Spec.DvbSpec.
Import ListNotations.
Open Scope Z_scope.

Definition opt_b (c : bool) (x : Z) : list Z := if c then [x] else [].

(* EN 300 468 Annex D.3: component_type_flag bsid_flag mainid_flag asvc_flag reserved(4), then the optional bytes in
   that order, then additional_info *)
Definition ref_ac3 (v : DescriptorAC3) : list Z :=
  [128 * Z.b2z (DescriptorAC3_HasComponentType v) + 64 * Z.b2z (DescriptorAC3_HasBSID v) + 32 * Z.b2z (DescriptorAC3_HasMainID v)
   + 16 * Z.b2z (DescriptorAC3_HasASVC v) + 15] ++
  opt_b (DescriptorAC3_HasComponentType v) (DescriptorAC3_ComponentType v) ++ opt_b (DescriptorAC3_HasBSID v) (DescriptorAC3_BSID v) ++
  opt_b (DescriptorAC3_HasMainID v) (DescriptorAC3_MainID v) ++ opt_b (DescriptorAC3_HasASVC v) (DescriptorAC3_ASVC v) ++
  DescriptorAC3_AdditionalInfo v.

(* Annex D.5: component_type_flag bsid_flag mainid_flag asvc_flag mixinfoexists substream1_flag substream2_flag
   substream3_flag, then the optional bytes in the order of the flags *)
Definition ref_enhanced_ac3 (v : DescriptorEnhancedAC3) : list Z :=
  [128 * Z.b2z (DescriptorEnhancedAC3_HasComponentType v) + 64 * Z.b2z (DescriptorEnhancedAC3_HasBSID v)
   + 32 * Z.b2z (DescriptorEnhancedAC3_HasMainID v) + 16 * Z.b2z (DescriptorEnhancedAC3_HasASVC v)
   + 8 * Z.b2z (DescriptorEnhancedAC3_MixInfoExists v) + 4 * Z.b2z (DescriptorEnhancedAC3_HasSubStream1 v)
   + 2 * Z.b2z (DescriptorEnhancedAC3_HasSubStream2 v) + Z.b2z (DescriptorEnhancedAC3_HasSubStream3 v)] ++
  opt_b (DescriptorEnhancedAC3_HasComponentType v) (DescriptorEnhancedAC3_ComponentType v) ++
  opt_b (DescriptorEnhancedAC3_HasBSID v) (DescriptorEnhancedAC3_BSID v) ++
  opt_b (DescriptorEnhancedAC3_HasMainID v) (DescriptorEnhancedAC3_MainID v) ++
  opt_b (DescriptorEnhancedAC3_HasASVC v) (DescriptorEnhancedAC3_ASVC v) ++
  opt_b (DescriptorEnhancedAC3_HasSubStream1 v) (DescriptorEnhancedAC3_SubStream1 v) ++
  opt_b (DescriptorEnhancedAC3_HasSubStream2 v) (DescriptorEnhancedAC3_SubStream2 v) ++
  opt_b (DescriptorEnhancedAC3_HasSubStream3 v) (DescriptorEnhancedAC3_SubStream3 v) ++
  DescriptorEnhancedAC3_AdditionalInfo v.

(* ISO/IEC 13818-1 2.6.64: profile_idc; constraint_set0..2_flag AVC_compatible_flags(5); level_idc;
   AVC_still_present AVC_24_hour_picture_flag reserved(6) *)
Definition ref_avc_video (v : DescriptorAVCVideo) : list Z :=
  [DescriptorAVCVideo_ProfileIDC v;
   128 * Z.b2z (DescriptorAVCVideo_ConstraintSet0Flag v) + 64 * Z.b2z (DescriptorAVCVideo_ConstraintSet1Flag v)
   + 32 * Z.b2z (DescriptorAVCVideo_ConstraintSet2Flag v) + DescriptorAVCVideo_CompatibleFlags v;
   DescriptorAVCVideo_LevelIDC v;
   128 * Z.b2z (DescriptorAVCVideo_AVCStillPresent v) + 64 * Z.b2z (DescriptorAVCVideo_AVC24HourPictureFlag v) + 63].

(* EN 300 468 6.2.8: stream_content_ext(4) stream_content(4) component_type component_tag language(24) text *)
Definition ref_component (v : DescriptorComponent) : list Z :=
  [DescriptorComponent_StreamContentExt v * 16 + DescriptorComponent_StreamContent v; DescriptorComponent_ComponentType v;
   DescriptorComponent_ComponentTag v] ++ DescriptorComponent_ISO639LanguageCode v ++ DescriptorComponent_Text v.

(* 6.2.15: descriptor_number(4) last_descriptor_number(4) language(24) length_of_items, per item description and
   item text each with its length byte, text with its length byte *)
Definition ref_extended_event (v : DescriptorExtendedEvent) : list Z :=
  [DescriptorExtendedEvent_Number v * 16 + DescriptorExtendedEvent_LastDescriptorNumber v] ++
  DescriptorExtendedEvent_ISO639LanguageCode v ++ [size_extended_event_items v] ++
  flat_map (fun it => [zlen (DescriptorExtendedEventItem_Description it)] ++ DescriptorExtendedEventItem_Description it ++
                      [zlen (DescriptorExtendedEventItem_Content it)] ++ DescriptorExtendedEventItem_Content it)
           (DescriptorExtendedEvent_Items v) ++
  [zlen (DescriptorExtendedEvent_Text v)] ++ DescriptorExtendedEvent_Text v.

(* 6.4.11 supplementary audio: mix_type editorial_classification(5) reserved(1) language_code_present, language, private data *)
Definition ref_supplementary_audio (s : DescriptorExtensionSupplementaryAudio) : list Z :=
  [128 * Z.b2z (DescriptorExtensionSupplementaryAudio_MixType s) + 4 * DescriptorExtensionSupplementaryAudio_EditorialClassification s
   + 2 + Z.b2z (DescriptorExtensionSupplementaryAudio_HasLanguageCode s)] ++
  (if DescriptorExtensionSupplementaryAudio_HasLanguageCode s then DescriptorExtensionSupplementaryAudio_LanguageCode s else []) ++
  DescriptorExtensionSupplementaryAudio_PrivateData s.

(* 6.2.16: descriptor_tag_extension, then the selector bytes *)
Definition ref_extension (v : DescriptorExtension) : list Z :=
  DescriptorExtension_Tag v ::
  (if DescriptorExtension_Tag v =? 6
   then match DescriptorExtension_SupplementaryAudio v with Some s => ref_supplementary_audio s | None => [] end
   else match DescriptorExtension_Unknown v with Some bs => bs | None => [] end).

(* ISO/IEC 13818-1 2.6.26: reserved(2) maximum_bitrate(22) in units of 50 bytes/second *)
Definition ref_maximum_bitrate (v : DescriptorMaximumBitrate) : list Z :=
  let k := DescriptorMaximumBitrate_Bitrate v / 50 in [192 + k / 65536; (k / 256) mod 256; k mod 256].

(* EN 300 468 6.2.43 / 6.2.48: language(24) teletext_type(5) magazine_number(3) page_number(two 4-bit digits) *)
Definition ref_teletext (v : DescriptorTeletext) : list Z :=
  flat_map (fun it => DescriptorTeletextItem_Language it ++
                      [DescriptorTeletextItem_Type it * 8 + DescriptorTeletextItem_Magazine it;
                       (DescriptorTeletextItem_Page it / 10) * 16 + DescriptorTeletextItem_Page it mod 10])
           (DescriptorTeletext_Items v).

(* 6.2.47: data_service_id, length, then per line reserved(2) field_parity line_offset(5) for the six line-based
   services of table 105, one reserved byte for any other service *)
Definition ref_vbi_data (v : DescriptorVBIData) : list Z :=
  flat_map (fun s => DescriptorVBIDataService_DataServiceID s ::
                     (if spec_is_vbi_line_service (DescriptorVBIDataService_DataServiceID s)
                      then zlen (DescriptorVBIDataService_Descriptors s) ::
                           map (fun l => 192 + 32 * Z.b2z (DescriptorVBIDataDescriptor_FieldParity l) + DescriptorVBIDataDescriptor_LineOffset l)
                               (DescriptorVBIDataService_Descriptors s)
                      else [1; 255]))
           (DescriptorVBIData_Services v).

(* 6.2.20: country_code(24) country_region_id(6) reserved(1) local_time_offset_polarity, local_time_offset (hh mm in BCD),
   time_of_change (MJD + hh mm ss in BCD: Spec/DvbSpec.v), next_time_offset (hh mm in BCD); durations are nanoseconds,
   times Unix seconds *)
Definition ref_bcd_minutes (ns : Z) : list Z := [bcd_byte (ns / 3600000000000); bcd_byte (ns / 60000000000 mod 60)].
Definition ref_dvb_time (u : Z) : list Z :=
  spec_time_bytes (u / 86400 + 40587) (u mod 86400 / 3600) (u mod 86400 / 60 mod 60) (u mod 60).
Definition ref_local_time_offset (v : DescriptorLocalTimeOffset) : list Z :=
  flat_map (fun it => DescriptorLocalTimeOffsetItem_CountryCode it ++
                      [DescriptorLocalTimeOffsetItem_CountryRegionID it * 4 + 2 + Z.b2z (DescriptorLocalTimeOffsetItem_LocalTimeOffsetPolarity it)] ++
                      ref_bcd_minutes (DescriptorLocalTimeOffsetItem_LocalTimeOffset it) ++
                      ref_dvb_time (DescriptorLocalTimeOffsetItem_TimeOfChange it) ++
                      ref_bcd_minutes (DescriptorLocalTimeOffsetItem_NextTimeOffset it))
           (DescriptorLocalTimeOffset_Items v).
