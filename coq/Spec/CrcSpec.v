(* Independent reference: CRC-32/MPEG-2 as ISO 13818-1 Annex A defines it, one bit
   at a time. Polynomial 0x04C11DB7, initial value 0xFFFFFFFF, MSB first, no
   reflection, no final XOR. Shares nothing with the table driven code. *)
From Coq Require Import ZArith List Bool.
Import ListNotations.
Open Scope Z_scope.

Definition crc_poly : Z := 0x04C11DB7.
Definition crc_init : Z := 0xFFFFFFFF.

(* one shift of the 32 bit register with input bit [bit] *)
Definition bitstep (c : Z) (bit : bool) : Z :=
  let c' := (Z.shiftl c 1) mod 2 ^ 32 in
  if xorb (Z.testbit c 31) bit then Z.lxor c' crc_poly else c'.

Definition msb_first8 : list Z := [7; 6; 5; 4; 3; 2; 1; 0].

(* the eight bits of a byte, most significant first *)
Definition bytestep (c b : Z) : Z :=
  fold_left (fun c j => bitstep c (Z.testbit b j)) msb_first8 c.

Definition crc_update (c : Z) (msg : list Z) : Z := fold_left bytestep msg c.
Definition crc32_mpeg2 (msg : list Z) : Z := crc_update crc_init msg.

(* big-endian 4 byte rendering of a checksum *)
Definition be32 (v : Z) : list Z :=
  [(v / 2 ^ 24) mod 256; (v / 2 ^ 16) mod 256; (v / 2 ^ 8) mod 256; v mod 256].
