(* Property C02 at the level of delivered data: a model of well-formed transport streams that is independent of the
   library's Muxer (ISO/IEC 13818-1 2.4.1, 2.4.3, 2.4.4).

   A stream is described per PID by the list of the units the PID carries, each with the packets that carry it:
     - PES units: the reference encoding (Spec/PesSpec.v) of a well-formed PES header - C12's domain, including the
       parts the library cannot write - followed by the payload, PES_packet_length 0 or exact;
     - PSI units, on PID 0 or on a program-map PID: pointer_field, filler, 1..n sections in the reference layout of
       Spec/PsiSpec.v (any table ids the section parser decodes: C13's domain enters as the parameter SP), and an
       optional tail of 0xFF bytes;
     - each unit is CUT AT ARBITRARY POINTS: the payloads of its packets are any byte strings whose concatenation is
       the unit (scoping S5 for PSI units: no packet but the last ends on a section boundary or in the 0xFF tail - the
       accumulator takes a payload that ends on a section boundary for a complete unit);
     - each piece travels in a conformant 188-byte packet (C11's domain wf_packet: the adaptation field - with any
       optional parts and any number of stuffing bytes of any value - fills what the piece leaves), payload_unit_start
       on the first packet of a unit only, continuity counters consecutive per PID;
   and as a whole by the list of its packets in transmission order, each labelled with the unit it belongs to: ANY
   interleaving whose per-PID projection is the PID's packet sequence, in which a program-map PID carries packets only
   after a PAT announcing it was completed, with filler packets (transport_error_indicator, adaptation field only,
   null packets) anywhere.

   [expect] says what a demultiplexer must deliver for such a stream and when. *)
From Coq Require Import ZArith List Lia Bool Sorted.
Require Import Base.Bits Base.Iter Gen.Consts Gen.Types Gen.Preds Spec.PesSpec Spec.PacketSpec Spec.PsiSpec
  Model.Psi Model.Pool Model.Demux.
Import ListNotations.
Open Scope Z_scope.

(* ---------------- packets ---------------- *)

(* a conformant packet and the values of its adaptation-field stuffing bytes *)
Record spkt := mk_spkt { sp_pkt : Packet; sp_stuff : list Z }.

Definition spkt_ok (sp : spkt) : Prop :=
  wf_packet (sp_pkt sp) /\ Z.of_nat (length (sp_stuff sp)) = stuffing_of (sp_pkt sp) /\ bytes_ok (sp_stuff sp).

(* its 188 bytes: the ISO reference layout (Spec/PacketSpec.v) *)
Definition spkt_bytes (sp : spkt) : list Z := ref_packet_bytes_stuffed (sp_pkt sp) (sp_stuff sp).

Definition sp_payload (sp : spkt) : list Z := Packet_Payload (sp_pkt sp).

(* discontinuity_indicator of the adaptation field *)
Definition disc_flag (p : Packet) : bool :=
  match Packet_AdaptationField p with Some a => PacketAdaptationField_DiscontinuityIndicator a | None => false end.

(* a packet carrying payload of PID x *)
Definition pkt_on (x : Z) (sp : spkt) : Prop :=
  spkt_ok sp /\ pid_of (sp_pkt sp) = x /\ tei (sp_pkt sp) = false /\ has_payload (sp_pkt sp) = true.

(* filler: any conformant packet with the transport_error_indicator, any conformant packet without payload, and
   null packets (PID 0x1FFF, payload 0xFF) *)
Definition filler_ok (sp : spkt) : Prop :=
  spkt_ok sp /\
  (tei (sp_pkt sp) = true \/ has_payload (sp_pkt sp) = false \/
   (pid_of (sp_pkt sp) = C_PIDNull /\ pusi (sp_pkt sp) = false /\ exists n, sp_payload sp = repeat 255 n)).

(* what a parser returns as FirstPacket: header and adaptation field (derived length fields filled in), no payload *)
Definition first_pkt (p : Packet) : Packet :=
  {| Packet_AdaptationField := option_map observed_af (Packet_AdaptationField p);
     Packet_Header := Packet_Header p; Packet_Payload := [] |}.

(* ---------------- PES units ---------------- *)

Record pes_unit := mk_pes_unit {
  pu_sid : Z;                                                (* stream_id *)
  pu_plen : Z;                                               (* PES_packet_length *)
  pu_opt : option (PESOptionalHeader * list Z * nat);        (* optional header, pack_header bytes, stuffing bytes *)
  pu_data : list Z                                           (* PES_packet_data_bytes *)
}.

Definition pes_hdr_len (u : pes_unit) : Z :=
  match pu_opt u with
  | Some (h, _, st) => 3 + ref_header_data_length_all h + Z.of_nat st
  | None => 0
  end.

(* C12's domain; PES_packet_length 0 (unbounded) or the exact number of bytes behind the field *)
Definition pes_unit_ok (u : pes_unit) : Prop :=
  0 <= pu_sid u < 256 /\ bytes_ok (pu_data u) /\
  match pu_opt u with
  | Some (h, pack, st) => lib_has_optional_header (pu_sid u) = true /\ wf_all h pack st
  | None => lib_has_optional_header (pu_sid u) = false
  end /\
  (pu_plen u = 0 \/
   (0 < pu_plen u < 65536 /\ pu_plen u = pes_hdr_len u + Z.of_nat (length (pu_data u)))).

Definition pes_unit_bytes (u : pes_unit) : list Z :=
  match pu_opt u with
  | Some (h, pack, st) => ref_pes_bytes (pu_sid u) (pu_plen u) h pack st
  | None => ref_pes_bytes_noopt (pu_sid u) (pu_plen u)
  end ++ pu_data u.

(* what must come back: every header field and exactly the payload *)
Definition pes_unit_value (u : pes_unit) : PESData :=
  {| PESData_Data := pu_data u;
     PESData_Header :=
       Some {| PESHeader_OptionalHeader :=
                 match pu_opt u with Some (h, _, st) => Some (observed_all h st) | None => None end;
               PESHeader_PacketLength := pu_plen u;
               PESHeader_StreamID := pu_sid u |} |}.

(* ---------------- PSI units ---------------- *)

(* a section in the reference layout, and the value a decoder must return for it *)
Record psi_sec := mk_psi_sec {
  se_tid : Z; se_ssi : bool; se_pb : bool; se_body : list Z;
  se_value : PSISection
}.

Definition sec_bytes (s : psi_sec) : list Z := spec_section (se_tid s) (se_ssi s) (se_pb s) (se_body s).

Section Domain.
(* the sections a decoder must understand: byte string, value.  C13 provides PAT, PMT, SDT, NIT, EIT and TOT
   sections (C13_pat_section_parses, C13_pmt_section_parses_p, C13_parse_sdt, ...) *)
Variable SP : list Z -> PSISection -> Prop.

Definition sec_ok (s : psi_sec) : Prop :=
  0 <= se_tid s < 256 /\ shouldStopPSIParsing (se_tid s) = false /\
  Z.of_nat (length (se_body s)) + 4 < 4096 /\ bytes_ok (se_body s) /\
  SP (sec_bytes s) (se_value s).

Record psi_unit := mk_psi_unit {
  su_ptr : Z;               (* pointer_field *)
  su_fill : list Z;         (* the bytes it skips *)
  su_secs : list psi_sec;   (* the sections, back to back *)
  su_tail : nat             (* 0xFF bytes behind the last section *)
}.

Definition psi_unit_ok (u : psi_unit) : Prop :=
  0 <= su_ptr u < 256 /\ Z.of_nat (length (su_fill u)) = su_ptr u /\ bytes_ok (su_fill u) /\
  su_secs u <> [] /\ Forall sec_ok (su_secs u).

Definition psi_unit_bytes (u : psi_unit) : list Z :=
  su_ptr u :: su_fill u ++ concat (map sec_bytes (su_secs u)) ++ repeat 255 (su_tail u).

(* does the byte offset L lie strictly inside one of the sections that begin at offset [start]: behind the section's
   first byte, before its end *)
Fixpoint inside_secs (start : Z) (secs : list psi_sec) (L : Z) : bool :=
  match secs with
  | [] => false
  | s :: r => let e := start + Z.of_nat (length (sec_bytes s)) in
              ((start <? L) && (L <? e)) || inside_secs e r L
  end.

(* a beginning of L bytes of the unit does not end on a section boundary (nor in the 0xFF tail): it ends before the
   first section or strictly inside a section *)
Definition psi_mid (u : psi_unit) (L : Z) : bool :=
  (L <? 1 + su_ptr u) || inside_secs (1 + su_ptr u) (su_secs u) L.

(* ---------------- units and their carriage ---------------- *)

Inductive sunit := UPes (u : pes_unit) | UPsi (u : psi_unit).

Definition is_psi (u : sunit) : bool := match u with UPsi _ => true | UPes _ => false end.
Definition unit_bytes (u : sunit) : list Z :=
  match u with UPes pu => pes_unit_bytes pu | UPsi su => psi_unit_bytes su end.
Definition unit_ok (u : sunit) : Prop :=
  match u with UPes pu => pes_unit_ok pu | UPsi su => psi_unit_ok su end.

(* the data NextData must deliver for a unit on PID x whose first packet is p: the PES packet, or one datum per
   section in order (PSIData.toData: C13_to_data) *)
Definition unit_data (x : Z) (u : sunit) (p : Packet) : list DemuxerData :=
  match u with
  | UPes pu => [pes_data (first_pkt p) (pes_unit_value pu) x]
  | UPsi su => flat_map (fun s => section_to_data (se_value s) (first_pkt p) x) (su_secs su)
  end.

(* the program-map PIDs a unit announces: every PAT program with program_number > 0 *)
Definition sec_pat_pids (s : PSISection) : list Z := flat_map pat_pids (section_to_data s zero_Packet 0).
Definition announces (u : sunit) : list Z :=
  match u with UPsi su => flat_map (fun s => sec_pat_pids (se_value s)) (su_secs su) | UPes _ => [] end.

(* a unit with the packets that carry it *)
Record carried := mk_carried { cu_unit : sunit; cu_first : spkt; cu_rest : list spkt }.
Definition cu_pkts (c : carried) : list spkt := cu_first c :: cu_rest c.

Definition payload_of (l : list spkt) : list Z := concat (map sp_payload l).

(* scoping S5: the packets l, a proper beginning of the carriage of a PSI unit, do not end on a section boundary *)
Definition psi_partial (u : sunit) (l : list spkt) : Prop :=
  match u with
  | UPsi su => psi_mid su (Z.of_nat (length (payload_of l))) = true
  | UPes _ => True
  end.

Definition carried_ok (x : Z) (c : carried) : Prop :=
  unit_ok (cu_unit c) /\
  Forall (pkt_on x) (cu_pkts c) /\
  pusi (sp_pkt (cu_first c)) = true /\
  Forall (fun sp => pusi (sp_pkt sp) = false /\ disc_flag (sp_pkt sp) = false) (cu_rest c) /\
  payload_of (cu_pkts c) = unit_bytes (cu_unit c) /\                    (* cut anywhere ... *)
  (forall k, (0 < k < length (cu_pkts c))%nat -> psi_partial (cu_unit c) (firstn k (cu_pkts c))).   (* ... S5 *)

(* consecutive continuity counters *)
Fixpoint cc_chain (l : list Z) : Prop :=
  match l with
  | a :: ((b :: _) as r) => b = (a + 1) mod 16 /\ cc_chain r
  | _ => True
  end.

Definition es_pid_ok (x : Z) : Prop := 2 <= x < 16 \/ 21 <= x < 30 \/ 32 <= x < 8191.
Definition table_pid_ok (x : Z) : Prop := x = 0 \/ 2 <= x < 8191.

(* what one PID carries: PES units on an elementary-stream PID, or PSI units on PID 0 / a program-map PID *)
Definition pid_units_ok (x : Z) (cus : list carried) : Prop :=
  Forall (carried_ok x) cus /\
  cc_chain (map (fun sp => cc_of (sp_pkt sp)) (flat_map cu_pkts cus)) /\
  ((es_pid_ok x /\ Forall (fun c => is_psi (cu_unit c) = false) cus) \/
   (table_pid_ok x /\ Forall (fun c => is_psi (cu_unit c) = true) cus)).

(* ---------------- the stream ---------------- *)

(* a packet in transmission order: filler, or packet k of the n packets carrying unit u on PID x *)
Inductive ev :=
| EFill (p : spkt)
| EPkt (x : Z) (u : sunit) (k n : nat) (p : spkt).

Definition ev_pkt (e : ev) : spkt := match e with EFill p => p | EPkt _ _ _ _ p => p end.

Definition titem : Type := (sunit * nat * nat * spkt)%type.

(* the packets of PID x, in order *)
Fixpoint proj (x : Z) (evs : list ev) : list titem :=
  match evs with
  | [] => []
  | EFill _ :: r => proj x r
  | EPkt y u k n p :: r => if y =? x then (u, k, n, p) :: proj x r else proj x r
  end.

Fixpoint fillers (evs : list ev) : list spkt :=
  match evs with [] => [] | EFill p :: r => p :: fillers r | _ :: r => fillers r end.

Fixpoint number_from (u : sunit) (n k : nat) (l : list spkt) : list titem :=
  match l with [] => [] | p :: r => (u, k, n, p) :: number_from u n (S k) r end.

(* the packets of a carried unit, labelled *)
Definition labelled (c : carried) : list titem := number_from (cu_unit c) (length (cu_pkts c)) 0 (cu_pkts c).

Record ref_stream := mk_ref_stream {
  rs_pids : list (Z * list carried);     (* per PID, in increasing PID order, its units *)
  rs_events : list ev                     (* the packets in transmission order *)
}.

Fixpoint units_of (l : list (Z * list carried)) (x : Z) : list carried :=
  match l with [] => [] | (k, c) :: r => if k =? x then c else units_of r x end.

(* is x a PID carrying tables *)
Definition table_pid (l : list (Z * list carried)) (x : Z) : bool :=
  match units_of l x with c :: _ => is_psi (cu_unit c) | [] => false end.

(* this packet completes a table unit *)
Definition completes (u : sunit) (k n : nat) : bool := is_psi u && (S k =? n)%nat.

(* every packet on a program-map PID comes after a completed PAT that announced the PID *)
Fixpoint pat_first (tbl : Z -> bool) (reg : list Z) (evs : list ev) : Prop :=
  match evs with
  | [] => True
  | EFill _ :: r => pat_first tbl reg r
  | EPkt x u k n _ :: r =>
      (tbl x = true -> x = 0 \/ In x reg) /\
      pat_first tbl (if completes u k n then reg ++ announces u else reg) r
  end.

(* all the program-map PIDs announced anywhere in the stream *)
Definition announced (evs : list ev) : list Z :=
  flat_map (fun e => match e with EPkt _ u k n _ => if completes u k n then announces u else [] | EFill _ => [] end) evs.

Definition wf_stream (rs : ref_stream) : Prop :=
  StronglySorted Z.lt (map fst (rs_pids rs)) /\
  Forall (fun e => pid_units_ok (fst e) (snd e)) (rs_pids rs) /\
  (* any interleaving that keeps every PID's own order *)
  (forall x, proj x (rs_events rs) = flat_map labelled (units_of (rs_pids rs) x)) /\
  Forall filler_ok (fillers (rs_events rs)) /\
  pat_first (table_pid (rs_pids rs)) [] (rs_events rs) /\
  (* a PID that some PAT of the stream announces as a program-map PID is neither the null PID nor a PID carrying PES *)
  (forall x, In x (announced (rs_events rs)) ->
     x <> C_PIDNull /\ forall c, In c (units_of (rs_pids rs) x) -> is_psi (cu_unit c) = true).

Definition stream_bytes (rs : ref_stream) : list Z := flat_map (fun e => spkt_bytes (ev_pkt e)) (rs_events rs).

(* ---------------- what must be delivered, and when ---------------- *)

Definition upd (f : Z -> list DemuxerData) (x : Z) (v : list DemuxerData) : Z -> list DemuxerData :=
  fun y => if y =? x then v else f y.

(* the packet (x, u, k of n, p) arrives while [pend] holds, per PID, the unit that is still open: the first packet of
   a unit closes the previous unit of its PID, which is delivered; the packet completing a table unit delivers it *)
Definition ev_out (pend : Z -> list DemuxerData) (x : Z) (u : sunit) (k n : nat) (p : spkt)
  : list DemuxerData * (Z -> list DemuxerData) :=
  let out0 := if (k =? 0)%nat then pend x else [] in
  let pend1 := if (k =? 0)%nat then upd pend x (unit_data x u (sp_pkt p)) else pend in
  if completes u k n then (out0 ++ pend1 x, upd pend1 x []) else (out0, pend1).

(* the data in delivery order; at end of stream the units still open, in PID order *)
Fixpoint expect (pids : list Z) (pend : Z -> list DemuxerData) (evs : list ev) : list DemuxerData :=
  match evs with
  | [] => flat_map pend pids
  | EFill _ :: r => expect pids pend r
  | EPkt x u k n p :: r => let '(out, pend') := ev_out pend x u k n p in out ++ expect pids pend' r
  end.

Definition no_pend : Z -> list DemuxerData := fun _ => [].

(* the data delivered while the packets evs are read (nothing of the end-of-stream drain), and what is open afterwards *)
Fixpoint delivered (pend : Z -> list DemuxerData) (evs : list ev) : list DemuxerData * (Z -> list DemuxerData) :=
  match evs with
  | [] => ([], pend)
  | EFill _ :: r => delivered pend r
  | EPkt x u k n p :: r =>
      let '(o, pend1) := ev_out pend x u k n p in
      let '(o2, pend2) := delivered pend1 r in (o ++ o2, pend2)
  end.

Definition expected (rs : ref_stream) : list DemuxerData := expect (map fst (rs_pids rs)) no_pend (rs_events rs).

(* per PID: its units, each once, in order *)
Definition expected_on (rs : ref_stream) (x : Z) : list DemuxerData :=
  flat_map (fun c => unit_data x (cu_unit c) (sp_pkt (cu_first c))) (units_of (rs_pids rs) x).

End Domain.

(* ---------------- building a carriage from piece sizes (used by the examples) ---------------- *)

(* the adaptation field that fills a packet whose payload has [len] bytes: none for 184, the single length byte for
   183, otherwise a flags byte and 182 - len stuffing bytes *)
Definition fill_af (len : Z) : option PacketAdaptationField :=
  if len =? 184 then None else
  Some {| PacketAdaptationField_AdaptationExtensionField := None;
          PacketAdaptationField_OPCR := None; PacketAdaptationField_PCR := None;
          PacketAdaptationField_TransportPrivateData := [];
          PacketAdaptationField_TransportPrivateDataLength := 0;
          PacketAdaptationField_Length := 0;
          PacketAdaptationField_StuffingLength := if len =? 183 then 0 else 182 - len;
          PacketAdaptationField_SpliceCountdown := 0;
          PacketAdaptationField_IsOneByteStuffing := (len =? 183);
          PacketAdaptationField_RandomAccessIndicator := false;
          PacketAdaptationField_DiscontinuityIndicator := false;
          PacketAdaptationField_ElementaryStreamPriorityIndicator := false;
          PacketAdaptationField_HasAdaptationExtensionField := false;
          PacketAdaptationField_HasOPCR := false; PacketAdaptationField_HasPCR := false;
          PacketAdaptationField_HasTransportPrivateData := false;
          PacketAdaptationField_HasSplicingCountdown := false |}.

Definition raw_packet (x cc : Z) (err start has_pl : bool) (piece : list Z) (stuff_value : Z) : spkt :=
  let len := Z.of_nat (length piece) in
  let af := fill_af len in
  {| sp_pkt := {| Packet_AdaptationField := af;
                  Packet_Header := {| PacketHeader_ContinuityCounter := cc mod 16;
                                      PacketHeader_HasAdaptationField := negb (len =? 184);
                                      PacketHeader_HasPayload := has_pl;
                                      PacketHeader_PayloadUnitStartIndicator := start;
                                      PacketHeader_PID := x;
                                      PacketHeader_TransportErrorIndicator := err;
                                      PacketHeader_TransportPriority := false;
                                      PacketHeader_TransportScramblingControl := 0 |};
                  Packet_Payload := piece |};
     sp_stuff := repeat stuff_value (Z.to_nat (if len <? 183 then 182 - len else 0)) |}.

(* the packet carrying one piece of a unit *)
Definition piece_packet (x cc : Z) (start : bool) (piece : list Z) (stuff_value : Z) : spkt :=
  raw_packet x cc false start true piece stuff_value.

(* cut [bytes] into pieces of the given sizes (the last piece takes what is left) *)
Fixpoint cut (sizes : list nat) (bytes : list Z) : list (list Z) :=
  match sizes with
  | [] => [bytes]
  | s :: r => firstn s bytes :: cut r (skipn s bytes)
  end.

Fixpoint piece_packets (x cc : Z) (start : bool) (pieces : list (list Z)) (stuff_value : Z) : list spkt :=
  match pieces with
  | [] => []
  | pc :: r => piece_packet x cc start pc stuff_value :: piece_packets x (cc + 1) false r stuff_value
  end.

(* unit u on PID x, cut into pieces of the given sizes, first continuity counter cc, stuffing bytes of value sv *)
Definition carry (x cc : Z) (u : sunit) (sizes : list nat) (sv : Z) : carried :=
  match piece_packets x cc true (cut sizes (unit_bytes u)) sv with
  | p :: r => mk_carried u p r
  | [] => mk_carried u (piece_packet x cc true [] sv) []
  end.
